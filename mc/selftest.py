"""setup_cmd: nothing to build (the checks import /repo's working tree through /venv's editable install);
verify that the pieces the checks rely on are present."""
import sys


def main() -> int:
    import autobean_refactor
    from autobean_refactor import parser, models, printer, token_store  # noqa
    from . import store
    lf = store.set_load_factor(3)
    store.set_load_factor(None)
    p = parser.Parser()
    f = p.parse('2000-01-01 *\n  Assets:Foo 1 USD\n', models.File)
    assert ''.join(t.raw_text for t in f.token_store) == '2000-01-01 *\n  Assets:Foo 1 USD\n'
    print('selftest ok: autobean_refactor from', autobean_refactor.__path__[0], 'thresholds at LF=3:', lf)
    return 0


if __name__ == '__main__':
    sys.exit(main())
