"""E-OPS: operation alphabets derived from the descriptors found on model classes, donors, and a
uniform apply().  An op is a JSON list  [kind, path, ...]  (path = slot names from the root)."""
from __future__ import annotations

import copy
import datetime
import decimal
import typing
from typing import Any, Callable, Iterator, Optional

from autobean_refactor import models as M
from autobean_refactor.models import internal, meta_item_internal as MI, meta_value_internal as MV
from autobean_refactor.models.internal import (interleaving_comments as IC, properties as PR, repeated as R,
                                               spacing_accessors as SA, surrounding_comments as SC,
                                               value_properties as VP)

from . import docs, tree

D = decimal.Decimal


class HarnessError(Exception):
    pass

# ------------------------------------------------------------------------------------------------
# values (JSON-encodable)


def enc(v: Any) -> Any:
    if v is None:
        return None
    if isinstance(v, bool):
        return ['b', v]
    if isinstance(v, str):
        return ['s', v]
    if isinstance(v, D):
        return ['n', str(v)]
    if isinstance(v, datetime.date):
        return ['d', v.isoformat()]
    raise TypeError(v)


def dec(e: Any, ctx: Optional[dict] = None) -> Any:
    if e is None:
        return None
    k = e[0]
    if k == 'b':
        return bool(e[1])
    if k == 's':
        return e[1]
    if k == 'n':
        return D(e[1])
    if k == 'd':
        return datetime.date.fromisoformat(e[1])
    if k == 'm':
        return donor(e[1], e[2] if len(e) > 2 else 0, ctx or {})
    if k == 'eq':         # a distinct but EQUAL node: a deep copy of the current value of the slot / element
        return (ctx or {})['equal'](e)
    if k == 'a':          # an ATTACHED node (lives in some document): resolved by the caller's context
        return (ctx or {})['attached'](e)
    raise TypeError(e)


# ------------------------------------------------------------------------------------------------
# donors: fresh free-standing models per class

def _p(text: str, cls: type) -> Any:
    return docs.P().parse(text, cls)


def _indent(ctx: dict) -> str:
    return ctx.get('indent', '    ')


DONORS: dict[str, list[Callable[[dict], Any]]] = {
    'Currency': [lambda c: M.Currency.from_value('ZZZ'), lambda c: M.Currency.from_value('YY')],
    'NumberExpr': [lambda c: M.NumberExpr.from_value(D(7)), lambda c: _p('1 + 2', M.NumberExpr)],
    'EscapedString': [lambda c: M.EscapedString.from_value('z'), lambda c: M.EscapedString.from_value('a"b\\c')],
    'InlineComment': [lambda c: M.InlineComment.from_value('z')],
    'BlockComment': [lambda c: M.BlockComment.from_value('z', indent=c.get('comment_indent', '')),
                     lambda c: M.BlockComment.from_raw_text(c.get('comment_indent', '') + ';z')],
    'CostSpec': [lambda c: _p('{7 ZZZ}', M.CostSpec), lambda c: _p('{{}}', M.CostSpec)],
    'UnitCost': [lambda c: _p('{7 ZZZ}', M.UnitCost)],
    'TotalCost': [lambda c: _p('{{7 ZZZ}}', M.TotalCost)],
    'UnitPrice': [lambda c: _p('@ 7 ZZZ', M.UnitPrice)],
    'TotalPrice': [lambda c: _p('@@ 7 ZZZ', M.TotalPrice)],
    'Tolerance': [lambda c: _p('~ 7', M.Tolerance)],
    'PostingFlag': [lambda c: M.PostingFlag.from_value('!')],
    'TransactionFlag': [lambda c: M.TransactionFlag.from_value('!')],
    'Tag': [lambda c: M.Tag.from_value('z')],
    'Link': [lambda c: M.Link.from_value('z')],
    'Date': [lambda c: M.Date.from_value(datetime.date(2012, 12, 12))],
    'Account': [lambda c: M.Account.from_value('Assets:Z')],
    'Bool': [lambda c: M.Bool.from_value(True)],
    'Null': [lambda c: M.Null.from_default()],
    'Amount': [lambda c: _p('7 ZZZ', M.Amount)],
    'CompoundAmount': [lambda c: _p('7 # 8 ZZZ', M.CompoundAmount)],
    'Asterisk': [lambda c: M.Asterisk.from_default()],
    'MetaKey': [lambda c: M.MetaKey.from_value('zz')],
    'Indent': [lambda c: M.Indent.from_value(_indent(c))],
    'MetaItem': [lambda c: M.MetaItem.from_value('zz', D(7), indent=_indent(c)),
                 lambda c: M.MetaItem.from_value('yy', None, indent=_indent(c))],
    'Posting': [lambda c: M.Posting.from_value('Assets:Z', D(7), 'ZZZ', indent=_indent(c)),
                lambda c: _p(_indent(c) + 'Assets:Y\n' + _indent(c) + '  zz: 1', M.Posting)],
    'Transaction': [lambda c: _p('2012-12-12 * "z"\n  Assets:Z 7 ZZZ', M.Transaction)],
    'Open': [lambda c: _p('2012-12-12 open Assets:Z', M.Open)],
    'Option': [lambda c: _p('option "z" "z"', M.Option)],
    'Number': [lambda c: M.Number.from_value(D(7))],
    'NumberAddExpr': [lambda c: _p('7', M.NumberExpr).raw_number_add_expr, lambda c: _p('7 - 8', M.NumberExpr).raw_number_add_expr],
    'NumberMulExpr': [lambda c: _p('7 * 8', M.NumberExpr).raw_number_add_expr.raw_operands[0]],
    'NumberParenExpr': [lambda c: _p('(7)', M.NumberParenExpr)],
    'NumberUnaryExpr': [lambda c: _p('-7', M.NumberUnaryExpr)],
    'UnaryOp': [lambda c: _p('-7', M.NumberUnaryExpr).raw_unary_op.detach()[0]],
    'Ignored': [lambda c: M.Ignored.from_raw_text('* z')],
}

_FORWARD = {
    'NumberAtomExpr': ('Number', 'NumberParenExpr', 'NumberUnaryExpr'),
    'NumberAddExpr': ('NumberAddExpr',),
    'NumberMulExpr': ('NumberMulExpr',),
}
# For big unions only a few representative donor classes are used (keeps the alphabet small; all
# members behave alike for the container: detach/reattach/separators)
_UNION_PICK = {
    'Directive': ('Transaction', 'Option'),
}


def donor(cls_name: str, variant: int = 0, ctx: Optional[dict] = None) -> Any:
    fs = DONORS[cls_name]
    return fs[variant % len(fs)](ctx or {})


def type_names(tp: Any) -> list[str]:
    """class names a field annotation admits (only those we have donors for)"""
    if tp is None:
        return []
    if isinstance(tp, typing.ForwardRef):
        return list(_FORWARD.get(tp.__forward_arg__, ()))
    if isinstance(tp, str):
        return list(_FORWARD.get(tp, ()))
    args = typing.get_args(tp)
    if args:
        names = []
        for a in args:
            names += type_names(a)
        if len(names) > 6:   # the Directive union
            keep = [n for n in names if n in ('Transaction', 'Option', 'BlockComment')]
            return keep
        return names
    name = getattr(tp, '__name__', None)
    return [name] if name in DONORS else []


def field_type(f: Any) -> Any:
    oc = getattr(f, '__orig_class__', None)
    return oc.__args__[0] if oc else None


# ------------------------------------------------------------------------------------------------
# descriptor discovery

_DESC_CACHE: dict[type, dict[str, Any]] = {}


def descriptors(cls: type) -> dict[str, Any]:
    got = _DESC_CACHE.get(cls)
    if got is None:
        got = {}
        for k in reversed(cls.__mro__):
            for name, v in vars(k).items():
                if name.startswith('_'):
                    continue
                got[name] = v
        _DESC_CACHE[cls] = got
    return got


def slot_of_attr(model: Any, attr: str) -> Optional[str]:
    """The tree slot (field name) an attribute edits, found by following the descriptor chain."""
    desc = descriptors(type(model)).get(attr)
    seen = 0
    while desc is not None and seen < 6:
        seen += 1
        f = getattr(desc, '_inner_field', None)
        if f is not None:
            return getattr(f, '_attr', None)
        nxt = getattr(desc, '_inner_property', None) or getattr(desc, 'inner_property', None)
        if nxt is None:
            break
        desc = nxt
    return None


def wrapper_repeated(w: Any) -> Optional[R.Repeated]:
    for _ in range(4):
        r = getattr(w, '_repeated', None)
        if r is not None:
            return r
        w = getattr(w, '_raw_wrapper', None)
        if w is None:
            return None
    return None


def comment_ctx(model: Any) -> dict:
    """Indent context for donors placed under `model`."""
    ind = None
    d = getattr(model, '__dict__', {})
    iv = d.get('_indent')
    if isinstance(iv, M.Indent):
        ind = iv.raw_text
    if isinstance(model, M.File):
        return {'indent': '    ', 'comment_indent': ''}
    if ind is not None:      # posting / meta item: children are indented deeper
        return {'indent': ind + '  ', 'comment_indent': ind + '  ', 'own_indent': ind}
    return {'indent': '    ', 'comment_indent': '    ', 'own_indent': ''}


# ------------------------------------------------------------------------------------------------
# enumeration

STR_DOMAIN = {
    'EscapedString': ['z', 'a"b\\c', ''],
    'Currency': ['ZZZ'],
    'PostingFlag': ['!'],
    'TransactionFlag': ['!'],
    'InlineComment': ['z', ''],
    'BlockComment': ['z', 'y\nw'],
    'Account': ['Assets:Z'],
    'Tag': ['z'],
    'Link': ['z'],
    'MetaKey': ['zz'],
    'Indent': ['      '],
    'Ignored': ['* z'],
}
RAW_DOMAIN = {   # raw_text replacements per token class (C02); in the token's language unless flagged
    'EscapedString': ['"z"', '"a\nb"', '""', '"\\p"', '"\\n"'],
    'Currency': ['ZZZ'],
    'Account': ['Assets:Z'],
    'Number': ['7', '1,000.50', '1.0', '01'],                       # (same value as a corpus number, other spelling)
    'Date': ['2012-12-12', '2012/1/2', '2000/01/01', '2000-1-1'],   # (same date as the corpus date, other spelling)
    'Tag': ['#z'],
    'Link': ['^z'],
    'MetaKey': ['zz:'],
    'InlineComment': [';z', '; zz', ';ic', ';  ic'],
    'BlockComment': ['; z', '; z\n; w', ';z', ';; z', ';'],
    'Indent': ['      ', '\t'],
    'Whitespace': ['  ', '\t'],
    'Newline': ['\r\n', '\n'],
    'PostingFlag': ['!'],
    'TransactionFlag': ['!', 'txn'],
    'Bool': ['FALSE', 'TRUE'],
    'Ignored': ['* z'],
    'AddOp': ['-', '+'],
    'MulOp': ['/', '*'],
    'UnaryOp': ['+', '-'],
}


def token_values(t: M.RawTokenModel) -> list[Any]:
    """in-domain values for token.value (different from the current one first)"""
    if isinstance(t, M.Date):
        vs = [datetime.date(2012, 12, 12), datetime.date(1999, 1, 2)]
    elif isinstance(t, M.Number):
        vs = [D(7), D('1234.50')]
    elif isinstance(t, M.Bool):
        vs = [True, False]
    elif isinstance(t, VP.RWValue) and type(t).__name__ in STR_DOMAIN:
        vs = list(STR_DOMAIN[type(t).__name__])
    else:
        return []
    return [v for v in vs if v != t.value][:2]


class _Unreadable:
    """stands for a current value whose getter raises (e.g. the value of `1/0`)"""

    def __eq__(self, other: object) -> bool:
        return False

    def __ne__(self, other: object) -> bool:
        return True


_UNREADABLE = _Unreadable()


def cur_value(m: Any, attr: str) -> Any:
    try:
        return getattr(m, attr)
    except Exception:  # noqa: reading may legitimately raise (division by zero in a number expression)
        return _UNREADABLE


def seq_index_args(n: int, level: str) -> dict[str, list]:
    """index / slice arguments for a sequence of length n"""
    if level == 'basic':
        ints = list(range(0, n))
        ins = list(range(0, n + 1))
        slices = [[a, b, None] for a in range(n + 1) for b in range(a, n + 1)]
    else:
        ints = list(range(-n - 1, n + 1))
        ins = list(range(-n - 1, n + 2))
        slices = [[a, b, None] for a in range(n + 1) for b in range(a, n + 1)]
        slices += [[b, a, None] for a in range(n + 1) for b in range(a + 1, n + 1)]      # reversed ranges
        slices += [[-1, None, None], [None, -1, None], [-2, -1, None], [None, None, None]]
        slices += [[None, None, 2], [None, None, -1], [1, None, 2]]
    return {'ints': ints, 'ins': ins, 'slices': slices}


def _seq_ops(path: list, attr: str, w: Any, names: list[str], valdom: Optional[list], level: str) -> Iterator[list]:
    """ops on a MutableSequence view; element donors by class names (node views) or encoded values."""
    n = len(w)
    args = seq_index_args(n, level)
    if valdom is not None:
        elems = valdom[:2]
    else:
        elems = [['m', nm, 0] for nm in names[:3]]
    base = ['seq', path, attr]
    for e in elems:
        yield base + ['append', e]
        for i in args['ins']:
            yield base + ['insert', i, e]
        for i in args['ints']:
            yield base + ['set', i, e]
        yield base + ['extend', [e, e]]
    if elems:
        yield base + ['extend', []]
        e0 = elems[0]
        e1 = elems[-1]
        for s in args['slices']:
            for k in (0, 1, 2) if level == 'basic' else (0, 1, 2, 3):
                yield base + ['setslice', s, [e0, e1, e0][:k]]
    if valdom is None and n:
        yield base + ['set', 0, ['eq', 0]]
        yield base + ['set', n - 1, ['eq', n - 1]]
    for i in args['ints']:
        yield base + ['pop', i]
        yield base + ['del', i]
    for s in args['slices']:
        yield base + ['delslice', s]
    yield base + ['clear']
    if level != 'basic':
        yield base + ['pop', None]
        yield base + ['reverse']
        if valdom is not None and n:
            yield base + ['remove', 0]      # remove(value of element 0)
            yield base + ['discard', 0]
            yield base + ['remove', 'absent']


def enum_model_ops(path: list, m: Any, level: str = 'basic', kinds: Optional[set] = None) -> Iterator[list]:
    """All ops targeting model m (reached by path)."""
    want = (lambda k: kinds is None or k in kinds)
    if isinstance(m, M.RawTokenModel):
        name = type(m).__name__
        if want('tokraw'):
            for s in RAW_DOMAIN.get(name, []):
                if s != m.raw_text:
                    yield ['tokraw', path, s]
        if want('tokval'):
            for v in token_values(m):
                yield ['tokval', path, enc(v)]
        if want('spacing') and isinstance(m, SA.SpacingAccessorsMixin):
            for side in ('before', 'after'):
                for s in ('', ' ', '\n', '\t '):
                    yield ['spacing', path, side, s]
        return
    if isinstance(m, R.Repeated):
        return
    ctx = comment_ctx(m)
    for attr, desc in descriptors(type(m)).items():
        if isinstance(desc, PR.optional_node_property):
            if not want('setnode'):
                continue
            cur = getattr(m, attr)
            names = type_names(field_type(desc._inner_field))
            if attr in ('raw_leading_comment', 'raw_trailing_comment'):
                names = ['BlockComment']
            if cur is not None:
                yield ['setnode', path, attr, None]
                yield ['setnode', path, attr, ['eq']]
            for nm in names:
                for var in range(min(2, len(DONORS[nm]))):
                    yield ['setnode', path, attr, ['m', nm, var]]
        elif isinstance(desc, PR.required_node_property):
            if not want('setnode'):
                continue
            names = type_names(field_type(desc._inner_field))
            for nm in names:
                yield ['setnode', path, attr, ['m', nm, 0]]
            if names:
                yield ['setnode', path, attr, ['eq']]
        elif isinstance(desc, PR.unordered_node_property):
            if not want('setnode'):
                continue
            nm = desc._inner_type.__name__
            if getattr(m, attr) is not None:
                yield ['setnode', path, attr, None]
            if nm in DONORS:
                yield ['setnode', path, attr, ['m', nm, 0]]
        elif isinstance(desc, (PR.repeated_node_property, IC.repeated_node_with_interleaving_comments_property)):
            if not want('seq'):
                continue
            names = type_names(field_type(desc._inner_field))
            yield from _seq_ops(path, attr, getattr(m, attr), names, None, level)
            if want('claim') and isinstance(desc, IC.repeated_node_with_interleaving_comments_property):
                yield ['claimseq', path, attr, 'claim']
                yield ['claimseq', path, attr, 'unclaim']
        elif isinstance(desc, (MI.repeated_raw_meta_item_property, MI.repeated_meta_item_property)):
            if not want('seq'):
                continue
            w = getattr(m, attr)
            yield from _seq_ops(path, attr, w, ['MetaItem'], None, level)
            if want('map'):
                keys = [it.key for it in w][:2] + ['nokey']
                raw = isinstance(desc, MI.repeated_raw_meta_item_property)
                for k in keys:
                    yield ['map', path, attr, 'del', k]
                    yield ['map', path, attr, 'pop', k]
                    if raw:
                        yield ['map', path, attr, 'set', k, ['m', 'MetaItem', 0]]
                    else:
                        for v in (['s', 'z'], ['n', '7'], None, ['m', 'Account', 0]):
                            yield ['map', path, attr, 'set', k, v]
        elif isinstance(desc, VP.repeated_filtered_node_property):
            if not want('seq'):
                continue
            w = getattr(m, attr)
            rt = w._raw_type if isinstance(w._raw_type, tuple) else (w._raw_type,)
            names = [t.__name__ for t in rt if t.__name__ in DONORS]
            if len(names) > 6:
                names = [n for n in names if n in ('Transaction', 'Option')]
            yield from _seq_ops(path, attr, w, names, None, level)
        elif isinstance(desc, VP.repeated_string_property):
            if not want('seq'):
                continue
            w = getattr(m, attr)
            nm = w._raw_type.__name__
            yield from _seq_ops(path, attr, w, [], [['s', v] for v in STR_DOMAIN.get(nm, ['z'])] + [['s', 'YY']], level)
        elif isinstance(desc, PR.cached_custom_property) and attr == 'values':
            if not want('seq'):
                continue
            w = getattr(m, attr)
            yield from _seq_ops(path, attr, w, [], [['s', 'z'], ['n', '7'], ['b', True], ['m', 'Account', 0]], level)
        elif isinstance(desc, (VP.optional_string_property, VP.optional_indented_string_property)):
            if not want('setval'):
                continue
            nm = desc._inner_type.__name__
            cur = cur_value(m, attr)
            if cur is not None:
                yield ['setval', path, attr, None]
            for v in STR_DOMAIN.get(nm, ['z'])[:2]:
                if v != cur:
                    yield ['setval', path, attr, ['s', v]]
        elif isinstance(desc, VP.optional_decimal_property):
            if not want('setval'):
                continue
            cur = cur_value(m, attr)
            if cur is not None:
                yield ['setval', path, attr, None]
            for v in (D(7), D('-1.5'), D(0)):
                if v != cur:
                    yield ['setval', path, attr, enc(v)]
        elif isinstance(desc, VP.optional_date_property):
            if not want('setval'):
                continue
            cur = cur_value(m, attr)
            if cur is not None:
                yield ['setval', path, attr, None]
            yield ['setval', path, attr, enc(datetime.date(2012, 12, 12))]
        elif isinstance(desc, MV.optional_meta_value_property):
            if not want('setval'):
                continue
            cur = cur_value(m, attr)
            if cur is not None:
                yield ['setval', path, attr, None]
            for v in (['s', 'z'], ['n', '7'], ['b', True], ['d', '2012-12-12'], ['m', 'Account', 0],
                      ['m', 'Currency', 0], ['m', 'Tag', 0], ['m', 'Null', 0], ['m', 'Amount', 0]):
                yield ['setval', path, attr, v]
        elif isinstance(desc, VP.required_value_property):
            if not want('setval'):
                continue
            inner = desc._inner_property.__get__(m)
            if isinstance(inner, M.RawTokenModel):
                for v in token_values(inner)[:2]:
                    yield ['setval', path, attr, enc(v)]
            elif isinstance(inner, (M.NumberExpr, M.Tolerance)):
                for v in (D(7), D('-1.5')):
                    if v != cur_value(inner, 'value'):
                        yield ['setval', path, attr, enc(v)]
        elif isinstance(desc, property) and desc.fset is not None:
            if not want('setval'):
                continue
            if attr == 'merge':
                yield ['setval', path, attr, ['b', not m.merge]]
            elif attr == 'value' and isinstance(m, (M.NumberExpr, M.Tolerance)):
                for v in (D(7), D('-1.5')):
                    if v != cur_value(m, 'value'):
                        yield ['setval', path, attr, enc(v)]
            elif attr in ('spacing_before', 'spacing_after'):
                if want('spacing') and path:
                    for s in ('', ' ', '\n', '\t '):
                        yield ['spacing', path, attr.split('_')[1], s]
        elif isinstance(desc, PR.custom_property) and not isinstance(desc, PR.cached_custom_property):
            # raw_payee / raw_narration / cost raw_number_per / raw_number_total / raw_currency
            if not want('setnode'):
                continue
            if desc._fset is PR._default_fset:
                continue
            nm = {'raw_payee': 'EscapedString', 'raw_narration': 'EscapedString', 'raw_number_per': 'NumberExpr',
                  'raw_number_total': 'NumberExpr', 'raw_currency': 'Currency'}.get(attr)
            if nm is None:
                continue
            if getattr(m, attr) is not None:
                yield ['setnode', path, attr, None]
            yield ['setnode', path, attr, ['m', nm, 0]]
    if want('claim') and isinstance(m, SC.SurroundingCommentsMixin):
        for meth in ('claim_leading_comment', 'unclaim_leading_comment', 'claim_trailing_comment',
                     'unclaim_trailing_comment'):
            yield ['claim', path, meth]
    if want('claim') and path == []:
        yield ['claim', path, 'auto_claim_comments']
    if want('numop') and isinstance(m, M.NumberExpr):
        for op in ('iadd', 'isub', 'imul', 'itruediv'):
            for operand in (['n', '7'], ['m', 'NumberExpr', 1]):
                yield ['numop', path, op, operand]


def enum_ops(root: Any, level: str = 'basic', kinds: Optional[set] = None,
             model_filter: Optional[Callable[[tuple, Any], bool]] = None) -> list[list]:
    out = []
    for path, m in tree.walk(root):
        if model_filter is not None and not model_filter(path, m):
            continue
        out.extend(enum_model_ops(list(path), m, level, kinds))
    return out


# ------------------------------------------------------------------------------------------------
# apply

class Applied:
    __slots__ = ('exc', 'result', 'target', 'attr', 'donors')

    def __init__(self) -> None:
        self.exc: Optional[BaseException] = None
        self.result: Any = None
        self.target: Any = None
        self.attr: Optional[str] = None
        self.donors: list = []


def _slice(s: list) -> slice:
    return slice(s[0], s[1], s[2])


def apply(root: Any, op: list, *, catch: bool = True, extra: Optional[dict] = None) -> Applied:
    """Resolve the op against the live tree and perform it through the public API."""
    ap = Applied()
    kind = op[0]
    if op[1] and op[1][0] == '@':      # a token addressed by its ordinal in the store
        toks = list(root.token_store)
        m = toks[op[1][1]] if op[1][1] < len(toks) else None
    else:
        m = tree.resolve(root, tuple(op[1]))
    if m is None:
        ap.exc = LookupError(f'path {op[1]} does not resolve')
        ap.result = 'unresolved'
        return ap
    ap.target = m
    ctx = comment_ctx(m) if not isinstance(m, M.RawTokenModel) else {}
    if extra:
        ctx.update(extra)

    def _equal(e: list) -> Any:
        if op[0] == 'seq':
            return copy.deepcopy(getattr(m, op[2])[e[1]])
        return copy.deepcopy(getattr(m, op[2]))
    ctx['equal'] = _equal

    def mk(e: Any) -> Any:
        v = dec(e, ctx)
        if isinstance(v, M.RawModel):
            ap.donors.append(v)
        return v

    try:
        if kind == 'tokraw':
            m.raw_text = op[2]
        elif kind == 'tokval':
            m.value = dec(op[2])
        elif kind == 'setnode':
            ap.attr = op[2]
            if op[2] in ('raw_leading_comment', 'raw_trailing_comment', 'leading_comment', 'trailing_comment'):
                ctx = dict(ctx, comment_indent=ctx.get('own_indent', ''))
            setattr(m, op[2], mk(op[3]))
        elif kind == 'setval':
            ap.attr = op[2]
            setattr(m, op[2], mk(op[3]))
        elif kind == 'spacing':
            setattr(m, 'spacing_' + op[2], op[3])
        elif kind == 'claim':
            ap.result = getattr(m, op[2])()
        elif kind == 'claimseq':
            ap.attr = op[2]
            w = getattr(m, op[2])
            ap.result = w.claim_interleaving_comments() if op[3] == 'claim' else w.unclaim_interleaving_comments()
        elif kind == 'numop':
            operand = mk(op[3])
            meth = getattr(m, f'__{op[2]}__')
            ap.result = meth(operand)
        elif kind == 'seq':
            ap.attr = op[2]
            w = getattr(m, op[2])
            meth = op[3]
            if meth == 'append':
                w.append(mk(op[4]))
            elif meth == 'insert':
                w.insert(op[4], mk(op[5]))
            elif meth == 'set':
                w[op[4]] = mk(op[5])
            elif meth == 'extend':
                w.extend([mk(e) for e in op[4]])
            elif meth == 'setslice':
                w[_slice(op[4])] = [mk(e) for e in op[5]]
            elif meth == 'pop':
                ap.result = w.pop() if op[4] is None else w.pop(op[4])
            elif meth == 'del':
                del w[op[4]]
            elif meth == 'delslice':
                del w[_slice(op[4])]
            elif meth == 'clear':
                w.clear()
            elif meth == 'reverse':
                w.reverse()
            elif meth in ('remove', 'discard'):
                v = 'zzabsent' if op[4] == 'absent' else w[op[4]]
                getattr(w, meth)(v)
            else:
                raise HarnessError(op)
        elif kind == 'map':
            ap.attr = op[2]
            w = getattr(m, op[2])
            meth, key = op[3], op[4]
            if meth == 'del':
                del w[key]
            elif meth == 'pop':
                ap.result = w.pop(key)
            elif meth == 'set':
                v = mk(op[5])
                if isinstance(v, M.MetaItem) and key != 'nokey' and op[5][0] == 'm':
                    v.key = key       # fresh donors only: never touch a node that lives in a document
                w[key] = v
            else:
                raise HarnessError(op)
        else:
            raise HarnessError(op)
    except HarnessError:
        raise
    except Exception as e:  # noqa
        if not catch:
            raise
        ap.exc = e
    return ap
