"""Document-history explorer: parse a document afresh, apply a history of API calls (ops.py), evaluate a
pluggable oracle after every step; enumerate all histories up to a depth, deduplicated by canonical
state."""
from __future__ import annotations

from typing import Any, Callable, Optional

from autobean_refactor import models as M

from . import core, docs, ops, store, tree


class Oracle:
    """Override what is needed. kinds/level select the operation alphabet."""
    name = 'oracle'
    kinds: Optional[set] = None
    level = 'basic'
    extend_after_exception = False

    def model_filter(self, path: tuple, m: Any) -> bool:
        return True

    def op_filter(self, root: Any, op: list) -> bool:
        return True

    def start(self, root: Any, case: dict, res: core.CaseResult) -> None:
        pass

    def pre(self, root: Any, op: list) -> Any:
        return None

    def post(self, root: Any, op: list, ap: ops.Applied, pre: Any, res: core.CaseResult, case: dict) -> None:
        pass


def parse_case(case: dict) -> Any:
    return docs.try_parse(case['text'], M.File, case.get('mode', True))


def history_case(case: dict, hist: list) -> dict:
    c = {'text': case['text'], 'mode': case.get('mode', True), 'ops': hist}
    if case.get('lf') is not None:
        c['lf'] = case['lf']
    return c


def run_history(case: dict, oracle: Oracle, res: core.CaseResult, *, check_from: int = 0) -> Optional[Any]:
    """Apply case['ops'] on a fresh parse with the oracle after every step >= check_from. Returns the
    live root (None if the text is rejected or a step could not be resolved / raised before the end)."""
    root = parse_case(case)
    if root is None:
        res.outcomes['rejected'] += 1
        return None
    hist = case['ops']
    if check_from == 0:
        oracle.start(root, case, res)
    for i, op in enumerate(hist):
        checked = i >= check_from
        tree.safe_pr(root)     # the document has been printed before it is edited (a print cache must not survive the edit)
        pre = oracle.pre(root, op) if checked else None
        ap = ops.apply(root, op)
        if ap.result == 'unresolved':
            res.outcomes['unresolved'] += 1
            return None
        if not checked:
            st = root.token_store      # replayed prefix: repeat the position reads a real history would have made
            try:
                for t in st:
                    st.get_position(t)
            except Exception:  # noqa
                pass
        if checked:
            res.transitions += 1
            nviol = len(res.violations)
            oracle.post(root, op, ap, pre, res, history_case(case, hist[:i + 1]))
            for k in range(nviol, len(res.violations)):
                key, text, sub = res.violations[k]
                if sub is None:
                    res.violations[k] = (key, text, history_case(case, hist[:i + 1]))
            res.outcomes[('raised:' + type(ap.exc).__name__) if ap.exc is not None else 'ok:' + op[0]] += 1
        if ap.exc is not None and i + 1 < len(hist) and not oracle.extend_after_exception:
            return None
        if len(res.violations) and checked:
            return None
    return root


def expand(case: dict, hist: list, oracle: Oracle) -> tuple[core.CaseResult, list[tuple[int, list]]]:
    """Execute every op of the oracle's alphabet from the state reached by hist (fresh parse + replay for
    each one). Returns the result and the successor histories with their canonical state keys."""
    res = core.CaseResult()
    succ: list[tuple[int, list]] = []
    lf = case.get('lf')
    if lf is not None:
        store.set_load_factor(lf)
    try:
        if hist:
            base = run_history(history_case(case, hist), oracle, core.CaseResult(), check_from=len(hist))
        else:
            base = parse_case(case)
            if base is None:
                res.outcomes['rejected'] += 1
                return res, succ
            oracle.start(base, case, res)
            for k in range(len(res.violations)):
                key, text, sub = res.violations[k]
                if sub is None:
                    res.violations[k] = (key, text, history_case(case, []))
            res.states.add(tree.state_key(base))
        if base is None or res.violations:
            return res, succ
        k0 = tree.state_key(base)
        opl = ops.enum_ops(base, case.get('level', oracle.level), oracle.kinds, oracle.model_filter)
        opl = [op for op in opl if oracle.op_filter(base, op)]
        focus = case.get('focus')       # {'path': [...], 'attrs': [...]}: restrict the alphabet to one field and its views
        if focus:
            opl = [op for op in opl if len(op) > 2 and op[1] == focus['path'] and op[2] in focus['attrs']]
        shard = case.get('shard')        # [k, n]: this task executes every n-th operation (documents with a large alphabet)
        if shard and not hist:
            opl = opl[shard[0]::shard[1]]
        for op in opl:
            h2 = hist + [op]
            r = core.CaseResult()
            end = run_history(history_case(case, h2), oracle, r, check_from=len(hist))
            res.transitions += r.transitions
            res.outcomes.update(r.outcomes)
            res.violations.extend(r.violations)
            res.counters.update(r.counters)
            if end is None:
                continue
            k = tree.state_key(end)
            res.states.add(k)
            if k != k0:
                res.nontrivial.add(k)
                succ.append((k, h2))
                if res.sample is None:
                    res.sample = {'text': case['text'], 'ops': h2, 'result': tree.pr(end)}
    finally:
        if lf is not None:
            store.set_load_factor(None)
    return res, succ


def explore_doc(case: dict, oracle: Oracle) -> core.CaseResult:
    """case = {text, mode, depth, lf?}: all histories up to depth (sequential; used for replay of a whole
    document and by small checks). Large runs use bfs() which spreads the same work over processes."""
    total = core.CaseResult()
    seen: set[int] = set()
    frontier: list[list] = [[]]
    for d in range(1, case.get('depth', 1) + 1):
        nxt = []
        for hist in frontier:
            r, succ = expand(case, hist, oracle)
            total.transitions += r.transitions
            total.outcomes.update(r.outcomes)
            total.violations.extend(r.violations)
            total.states |= r.states
            total.nontrivial |= r.nontrivial
            total.counters.update(r.counters)
            if total.sample is None:
                total.sample = r.sample
            for k, h2 in succ:
                if k not in seen:
                    seen.add(k)
                    nxt.append(h2)
        frontier = nxt
    return total


_BFS: dict = {}


def _bfs_task(args: tuple) -> tuple:
    ci, hist = args
    case = _BFS['cases'][ci]
    shard = core.Shard()
    try:
        r, succ = expand(case, hist, _BFS['oracle'])
    except Exception:  # noqa
        import traceback
        shard.errors.append(f'harness error expanding {case} {hist}:\n{traceback.format_exc()}')
        return ci, shard, []
    shard.add(history_case(case, hist), r)
    return ci, shard, succ


def bfs(run: core.Run, oracle: Oracle, cases: list[dict], label: str = '') -> None:
    """Level-synchronous BFS over (document, history) with one task per state; per-document
    deduplication by canonical state key; depth per case from case['depth']."""
    import multiprocessing
    import time
    if not cases:
        return
    _BFS['cases'] = cases
    _BFS['oracle'] = oracle
    seen: list[set] = [set() for _ in cases]
    frontier = [(ci, []) for ci in range(len(cases))]
    ctx = multiprocessing.get_context('fork')
    depth = 0
    t0 = time.time()
    before = run.total.transitions
    with ctx.Pool(core.NPROC) as pool:
        while frontier:
            depth += 1
            nxt = []
            chunk = max(1, min(16, len(frontier) // (core.NPROC * 8) or 1))
            for ci, shard, succ in pool.imap_unordered(_bfs_task, frontier, chunksize=chunk):
                run.total.merge(shard)
                if depth < cases[ci].get('depth', 1):
                    for k, h2 in succ:
                        if k not in seen[ci]:
                            seen[ci].add(k)
                            nxt.append((ci, h2))
            run.log(f'{label} depth {depth}: {len(frontier)} states expanded, {run.total.transitions - before} transitions, '
                    f'{len(nxt)} new states to expand, {run.total.violation_count} violating observations, '
                    f'{time.time() - t0:.1f}s')
            frontier = nxt
            if run.total.errors:
                break


def make_run_case(oracle: Oracle) -> Callable[[dict], core.CaseResult]:
    def run_case(case: dict) -> core.CaseResult:
        if 'ops' in case:
            res = core.CaseResult()
            lf = case.get('lf')
            if lf is not None:
                store.set_load_factor(lf)
            try:
                run_history(case, oracle, res)
            finally:
                if lf is not None:
                    store.set_load_factor(None)
            return res
        return explore_doc(case, oracle)
    return run_case


def corpus(alphabet: list[str], nmax: int, *, nmin: int = 1, modes=(True,), variants=(('lf', True),),
           depth: int = 1, lf: Optional[int] = None, need: Optional[Callable[[Any], bool]] = None,
           level: Optional[str] = None) -> list[dict]:
    out = []
    for t in docs.texts(alphabet, nmax, nmin=nmin, variants=variants):
        for mode in modes:
            root = docs.try_parse(t, M.File, mode)
            if root is None:
                continue
            if need is not None and not need(root):
                continue
            c = {'text': t, 'mode': mode, 'depth': depth}
            if lf is not None:
                c['lf'] = lf
            if level is not None:
                c['level'] = level
            out.append(c)
    return out


def class_cases(depth: int = 1, *, level: Optional[str] = None, modes=(True,), lf: Optional[int] = None) -> list[dict]:
    """one case per directive-class document (docs.L_CLASSES)"""
    out = []
    for t in docs.class_corpus():
        for mode in modes:
            if docs.try_parse(t, M.File, mode) is None:
                raise AssertionError(f'class corpus text rejected: {t!r}')
            c = {'text': t, 'mode': mode, 'depth': depth}
            if level is not None:
                c['level'] = level
            if lf is not None:
                c['lf'] = lf
            n = 8 if t.count('\n') >= 5 else 3 if t.count('\n') >= 3 else 1
            if n > 1 and depth == 1:
                out += [dict(c, shard=[k, n]) for k in range(n)]
            else:
                out.append(c)
    return out


FOCUS_SUBJECTS = [
    ('2000-01-01 open Assets:Foo USD, EUR\n', ['_directives', 'items[0]'], ['raw_currencies', 'currencies']),
    ('2000-01-01 *\n  Assets:Foo 1 USD\n  Assets:Bar\n', ['_directives', 'items[0]'], ['raw_postings_with_comments', 'raw_postings', 'postings']),
    ('2000-01-01 *\n  aa: 1\n  bb: 2\n', ['_directives', 'items[0]'], ['raw_meta_with_comments', 'raw_meta', 'meta']),
    ('2000-01-01 * "n" #t ^l\n', ['_directives', 'items[0]'], ['raw_tags_links', 'tags', 'links']),
    ('option "a" "b"\n\n; c\n\n2000-01-01 open Assets:Foo\n', [], ['raw_directives_with_comments', 'raw_directives', 'directives']),
    ('2000-01-01 custom "x" 1 TRUE\n', ['_directives', 'items[0]'], ['raw_values', 'values']),
]


def focus_cases(depth: int = 3, level: str = 'basic', subjects=None) -> list[dict]:
    """histories of `depth` steps confined to one repeated field and its aliasing views"""
    return [{'text': t, 'mode': True, 'depth': depth, 'level': level, 'focus': {'path': p, 'attrs': a}}
            for t, p, a in (subjects or FOCUS_SUBJECTS)]
