"""E-DOC: line alphabets and bounded document enumerators. The real parser is the acceptance oracle."""
from __future__ import annotations

import itertools
from typing import Iterable, Iterator, Optional

from autobean_refactor import models as M, parser as parser_lib

_PARSER: list = []


def P() -> parser_lib.Parser:
    if not _PARSER:
        _PARSER.append(parser_lib.Parser())
    return _PARSER[0]


def try_parse(text: str, target=M.File, auto_claim_comments: bool = True):
    try:
        return P().parse(text, target, auto_claim_comments=auto_claim_comments)
    except Exception:  # noqa: any rejection (lark errors, UnexpectedInput, assertion in builder)
        return None


# 21 line kinds: every directive family, every field kind, every comment/blank position, one non-ASCII
# account letter, one astral character in a string and in a comment.
L_FULL = [
    '2000-01-01 *',
    '2000-01-01 * "p" "n" #t ^l ; ic',
    '2000-01-01 open Assets:Foo USD, EUR "STRICT"',
    '2000-01-01 custom "x" 1 TRUE Assets:Foo "s" 2 USD',
    '2000-01-01 balance Assets:Foo 1 ~ 2 USD',
    '2000-01-01 note Assets:Fóo "n\U0001F600" #t ^l',
    'option "a" "b"',
    'pushmeta aa: 1',
    'include "x.bean"',
    '* ignored',
    '  Assets:Foo 1 USD',
    '  ! Assets:Foo 1 USD {2 # 3 EUR, 2000-01-01, "l", *} @ 1+2*(3) GBP ; ic',
    '  Assets:Bar',
    '  aa: 1',
    '    bb: "x" ; ic',
    '\tAssets:Tab 1 USD',
    '; c\U0001F600',
    '  ; c',
    '    ; c',
    '',
    '  ',
]

# every field kind: required, optional-left, optional-right, repeated with/without separator tokens,
# repeated with interleaving comments, repeated nested in repeated
L_EDIT = [
    '2000-01-01 * "p" "n" #t ^l',
    '2000-01-01 open Assets:Foo USD, EUR',
    '2000-01-01 custom "x" 1 TRUE',
    '  Assets:Foo 1 USD {2 EUR} @ 3 GBP',
    '  Assets:Bar',
    '  aa: 1',
    '    bb: "x"',
    '; c',
    '  ; c',
    '',
]

L_COMMENT = [
    '2000-01-01 *',
    'option "a" "b"',
    '  Assets:Foo 1 USD',
    '  aa: 1',
    '    bb: 2',
    '; c',
    '  ; c',
    '    ; c',
    '',
    '  ',
]

EOLS = {
    'lf': lambda i: '\n',
    'crlf': lambda i: '\r\n',
    'mixed': lambda i: '\n' if i % 2 == 0 else '\r\n',
    'crcrlf': lambda i: '\r\r\n',
}


def join_lines(lines: Iterable[str], eol: str = 'lf', final: bool = True) -> str:
    """eol 'crlf-cut': CRLF between lines and a bare CR at the very end (a CRLF file whose last LF is missing)"""
    lines = list(lines)
    f = EOLS['crlf' if eol == 'crlf-cut' else eol]
    out = []
    for i, line in enumerate(lines):
        out.append(line)
        if i + 1 < len(lines) or final:
            out.append(f(i))
    text = ''.join(out)
    if eol == 'crlf-cut' and text.endswith('\n'):
        text = text[:-1]
    return text


def sequences(alphabet: list[str], nmax: int, nmin: int = 0) -> Iterator[tuple[int, ...]]:
    for n in range(nmin, nmax + 1):
        yield from itertools.product(range(len(alphabet)), repeat=n)


def texts(alphabet: list[str], nmax: int, *, nmin: int = 0, variants=(('lf', True),)) -> Iterator[str]:
    seen = set()
    for seq in sequences(alphabet, nmax, nmin):
        lines = [alphabet[i] for i in seq]
        for eol, final in variants:
            t = join_lines(lines, eol, final)
            if t not in seen:
                seen.add(t)
                yield t


def accepted(texts_: Iterable[str], *, auto_claim_comments: bool = True) -> Iterator[str]:
    for t in texts_:
        if try_parse(t, M.File, auto_claim_comments) is not None:
            yield t


# one document per directive class, in a minimal and in a full form (every optional part present, a meta item below):
# gives the generic operation alphabet a subject of every class / every optional, required and repeated slot
L_CLASSES = [
    'option "a" "b"', 'option "a" "b" ; ic',
    'include "x.bean"', 'include "x.bean" ; ic',
    'plugin "p"', 'plugin "p" "cfg" ; ic',
    'pushtag #t', 'poptag #t ; ic',
    'pushmeta aa:', 'pushmeta aa: 1 ; ic', 'popmeta aa:', 'popmeta aa: ; ic',
    '2000-01-01 balance Assets:Foo 1 USD', '2000-01-01 balance Assets:Foo 1 ~ 2 USD ; ic\n  aa: 1',
    '2000-01-01 close Assets:Foo', '2000-01-01 close Assets:Foo ; ic\n  aa: 1',
    '2000-01-01 commodity USD', '2000-01-01 commodity USD ; ic\n  aa: 1',
    '2000-01-01 pad Assets:Foo Assets:Bar', '2000-01-01 pad Assets:Foo Assets:Bar ; ic\n  aa: 1',
    '2000-01-01 event "a" "b"', '2000-01-01 event "a" "b" ; ic\n  aa: 1',
    '2000-01-01 query "a" "b"', '2000-01-01 query "a" "b" ; ic\n  aa: 1',
    '2000-01-01 price USD 1 EUR', '2000-01-01 price USD 1+1 EUR ; ic\n  aa: 1',
    '2000-01-01 note Assets:Foo "n"', '2000-01-01 note Assets:Foo "n" #t ^l ; ic\n  aa: 1',
    '2000-01-01 document Assets:Foo "f"', '2000-01-01 document Assets:Foo "f" #t ^l ; ic\n  aa: 1',
    '2000-01-01 open Assets:Foo', '2000-01-01 open Assets:Foo USD, EUR "STRICT" ; ic\n  aa: 1',
    '2000-01-01 custom "x"', '2000-01-01 custom "x" 1 TRUE Assets:Foo "s" 2 USD 2000-01-01 ; ic\n  aa: 1',
    '2000-01-01 *', '2000-01-01 ! "p" "n" #t ^l ; ic\n  aa: 1\n  ! Assets:Foo 1 USD {2 # 3 EUR, 2000-01-01, "l", *} @ 4 GBP ; ic\n    bb: 2\n  Assets:Bar -1 USD {{5 EUR}} @@ 6 GBP\n  Assets:Baz',
    '* ignored',
    '; c\n2000-01-01 close Assets:Foo\n; d',
    # glued spellings: optional parts written without blanks next to their neighbours
    '2000-01-01 *"p""n"#t\n  !Assets:Foo 1USD{2EUR}@3GBP;ic\n    bb:2',
    '2000-01-01 balance Assets:Foo 100~0.1 USD',
    'plugin "a""b"',
    '2000-01-01 open Assets:Foo USD"STRICT"',
    'pushmeta aa:1',
    # number spellings: explicit plus, parentheses, a zero divisor, a compound cost glued to its hash
    '2000-01-01 *\n  Assets:Foo +1 USD {1.10# 11.00 USD}\n  Assets:Bar (1 + 2)EUR @@(3)GBP\n  Assets:Baz 1/0 USD',
    # meta values of every kind (simplified and preserved ones), a duplicate key
    '2000-01-01 open Assets:Foo\n  aa: 10.50 EUR\n  bb: Assets:Bar\n  cc: #t\n  dd: TRUE\n  ee: NULL\n  ff: 2000-01-01\n  gg: "s"\n  hh: USD\n  aa: 1 + 2',
    # cost components in unusual order
    '2000-01-01 *\n  Assets:Foo 1 USD {2000-01-01, 1.50 EUR, "lot"}\n  Assets:Bar 1 USD {"lot", *, 2 # 3 EUR}',
    # comments whose indentation differs from their owner's
    '2000-01-01 *\n\t; c\n  Assets:Foo\n      ; d',
]

# texts with characters that tempt "normalisation": a byte-order mark, decomposed accents, conjoining jamo, no-break and
# zero-width blanks. Whatever the parser accepts must come back verbatim.
EXOTIC = [
    '\ufeff2000-01-01 open Assets:Foo\n', '\ufeff', '\ufeff; c\n',
    '2000-01-01 open Assets:Cafe\u0301 USD\n', '2000-01-01 open Assets:\u1112\u1161\u11ab USD\n',
    'option "e\u0301" "\u1112\u1161\u11ab"\n; e\u0301 \ufeff\u200b\u00a0\n',
    '2000-01-01 * "a\u00a0b" ; x\u200b\n  Assets:Foo 1 USD\n',
    '2000-01-01 note Assets:Foo "\ufeffn"\n',
]


def class_corpus(modes=(True,), final=(True,)) -> list[str]:
    out = []
    for t in L_CLASSES:
        for f in final:
            out.append(t + ('\n' if f else ''))
    return out
