"""C10 - all views of a repeated field stay consistent with each other.

Explicit-state BFS per subject (a model with one repeated field and several aliasing views).
State      = the live model; canonical key = (element kinds of the raw list, which views have been read,
             their index tables).  Rebuilt by replaying the shortest history on a fresh parse.
Transition = one mutating call through one view (every index / slice / step / key argument of the menu).
Oracle     = lock-step Python list (raw view) / list semantics on the filtered projection with the
             complement untouched (filtered and value views) / first-match association list (mappings);
             after every transition every view is compared with the raw list filtered/converted now and
             every read call is compared with the reference.
"""
from __future__ import annotations

import decimal
import itertools
from typing import Any, Callable, Optional

from autobean_refactor import models as M

from .. import core, docs, tree

PROPERTY = 'C10'
D = decimal.Decimal


# ------------------------------------------------------------------------------------------------
# subjects

class View:
    def __init__(self, attr: str, kinds: str, conv: Optional[Callable] = None, mk: Optional[dict] = None,
                 mapping: Optional[str] = None):
        self.attr = attr
        self.kinds = kinds          # element kinds visible through this view ('' = raw view: all)
        self.conv = conv            # raw element -> value seen through the view (None: the node itself)
        self.mk = mk                # kind -> factory of a new value to pass through this view
        self.mapping = mapping      # 'raw' | 'value' for the meta mapping views


class Subject:
    def __init__(self, name: str, kinds: dict[str, Callable[[Any], bool]], text: Callable[[str], str],
                 locate: Callable[[Any], Any], raw: str, views: list[View], donors: dict[str, Callable[[int], Any]],
                 mode: bool = True, prepare: Optional[Callable[[Any], None]] = None):
        self.name, self.kinds, self.text, self.locate, self.raw = name, kinds, text, locate, raw
        self.views, self.donors, self.mode, self.prepare = views, donors, mode, prepare

    def kind_of(self, x: Any) -> str:
        for k, pred in self.kinds.items():
            if pred(x):
                return k
        return '?'

    def build(self, pattern: str) -> tuple[Any, Any]:
        root = docs.P().parse(self.text(pattern), M.File, auto_claim_comments=self.mode)
        m = self.locate(root)
        if self.prepare is not None:
            self.prepare(m)
        return root, m


def _file_text(p: str) -> str:
    parts = {'A': 'option "a" "b"', 'B': '2000-01-01 open Assets:Foo', 'C': '; c'}
    return '\n\n'.join(parts[k] for k in p) + ('\n' if p else '')


def _txn_text(kind_lines: dict[str, str]) -> Callable[[str], str]:
    def f(p: str) -> str:
        return '2000-01-01 *\n' + ''.join(kind_lines[k] + '\n' for k in p)
    return f


_n = itertools.count()


def _posting(i: int) -> Any:
    return M.Posting.from_value(f'Assets:N{i}', D(i), 'USD', indent='  ')


def _meta(i: int) -> Any:
    return M.MetaItem.from_value(f'k{i % 3}', D(i), indent='  ')


def _comment(i: int, indent: str = '  ') -> Any:
    return M.BlockComment.from_value(f'n{i}', indent=indent)


def _claim_all(attr: str) -> Callable[[Any], None]:
    def f(m: Any) -> None:
        getattr(m, attr).claim_interleaving_comments()
    return f


def _is(cls: Any) -> Callable[[Any], bool]:
    return lambda x: isinstance(x, cls)


DIRECTIVE = tuple(t for t in M.TREE_MODELS.values() if t.__name__ in (
    'Option', 'Open', 'Transaction', 'Balance', 'Close', 'Custom', 'Note'))

SUBJECTS: dict[str, Subject] = {}


def _reg(s: Subject) -> None:
    SUBJECTS[s.name] = s


_reg(Subject(
    'file.directives', {'A': _is(M.Option), 'B': _is(M.Open), 'C': _is(M.BlockComment)}, _file_text,
    lambda root: root, 'raw_directives_with_comments',
    [View('raw_directives_with_comments', ''), View('raw_directives', 'AB'), View('directives', 'AB')],
    {'A': lambda i: docs.P().parse(f'option "n{i}" "v"', M.Option), 'B': lambda i: docs.P().parse(f'2000-01-0{i % 9 + 1} open Assets:N', M.Open),
     'C': lambda i: _comment(i, '')}))

_reg(Subject(
    'txn.postings', {'A': _is(M.Posting), 'C': _is(M.BlockComment)},
    _txn_text({'A': '  Assets:Foo 1 USD', 'C': '  ; c'}),
    lambda root: root.raw_directives[0], 'raw_postings_with_comments',
    [View('raw_postings_with_comments', ''), View('raw_postings', 'A'), View('postings', 'A')],
    {'A': _posting, 'C': _comment}, mode=False, prepare=_claim_all('raw_postings_with_comments')))

_reg(Subject(
    'txn.meta', {'A': _is(M.MetaItem), 'C': _is(M.BlockComment)},
    lambda p: '2000-01-01 *\n' + ''.join((f'  k{i % 2}: {i}' if k == 'A' else '  ; c') + '\n' for i, k in enumerate(p)),
    lambda root: root.raw_directives[0], 'raw_meta_with_comments',
    [View('raw_meta_with_comments', ''), View('raw_meta', 'A', mapping='raw'), View('meta', 'A', mapping='value')],
    {'A': _meta, 'C': _comment}, mode=False, prepare=_claim_all('raw_meta_with_comments')))

_reg(Subject(
    'posting.meta', {'A': _is(M.MetaItem), 'C': _is(M.BlockComment)},
    lambda p: '2000-01-01 *\n  Assets:Foo\n' + ''.join((f'    k{i % 2}: {i}' if k == 'A' else '    ; c') + '\n' for i, k in enumerate(p)),
    lambda root: root.raw_directives[0].raw_postings[0], 'raw_meta_with_comments',
    [View('raw_meta_with_comments', ''), View('raw_meta', 'A', mapping='raw'), View('meta', 'A', mapping='value')],
    {'A': lambda i: M.MetaItem.from_value(f'k{i % 3}', D(i), indent='    '), 'C': lambda i: _comment(i, '    ')},
    mode=False, prepare=_claim_all('raw_meta_with_comments')))

_reg(Subject(
    'txn.tags_links', {'A': _is(M.Tag), 'B': _is(M.Link)},
    # equal values on purpose (#t #t ...): discard / remove / index / count must cope with duplicates
    lambda p: '2000-01-01 * "n"' + ''.join(' #t' if k == 'A' else ' ^l' for i, k in enumerate(p)) + '\n',
    lambda root: root.raw_directives[0], 'raw_tags_links',
    [View('raw_tags_links', ''), View('tags', 'A', conv=lambda x: x.value, mk={'A': lambda i: f'n{i}'}),
     View('links', 'B', conv=lambda x: x.value, mk={'B': lambda i: f'n{i}'})],
    {'A': lambda i: M.Tag.from_value(f'n{i}'), 'B': lambda i: M.Link.from_value(f'n{i}')}))

_reg(Subject(
    'open.currencies', {'A': _is(M.Currency)},
    lambda p: '2000-01-01 open Assets:Foo' + (' ' + ', '.join(f'C{i % 2}X' for i, _ in enumerate(p)) if p else '') + '\n',
    lambda root: root.raw_directives[0], 'raw_currencies',
    [View('raw_currencies', ''), View('currencies', 'A', conv=lambda x: x.value, mk={'A': lambda i: f'N{i}X'})],
    {'A': lambda i: M.Currency.from_value(f'N{i}X')}))


def _custom_conv(x: Any) -> Any:
    return x.value if isinstance(x, (M.EscapedString, M.Date, M.Bool, M.NumberExpr)) else x


_reg(Subject(
    'custom.values', {'A': _is(M.EscapedString), 'B': _is(M.NumberExpr), 'C': _is(M.Account)},
    lambda p: '2000-01-01 custom "t"' + ''.join({'A': f' "s{i}"', 'B': f' {i + 1}', 'C': f' Assets:A{i}'}[k] for i, k in enumerate(p)) + '\n',
    lambda root: root.raw_directives[0], 'raw_values',
    [View('raw_values', ''), View('values', 'ABC', conv=_custom_conv,
                                   mk={'A': lambda i: f'n{i}', 'B': lambda i: D(i + 10), 'C': lambda i: M.Account.from_value(f'Assets:N{i}')})],
    {'A': lambda i: M.EscapedString.from_value(f'n{i}'), 'B': lambda i: M.NumberExpr.from_value(D(i + 10)),
     'C': lambda i: M.Account.from_value(f'Assets:N{i}')}))


# ------------------------------------------------------------------------------------------------
# operations

def index_menu(n: int) -> list[int]:
    return list(range(-n - 1, n + 2))


def slice_menu(n: int, full: bool) -> list[list]:
    ends = [None, 0, 1, -1, n, n + 1, -n - 1] if full else [None, 0, 1, -1, n + 1, -n - 1]
    ends = list(dict.fromkeys(ends))
    steps = [None, 2, -1] if full else [None, 2, -1]
    return [[a, b, s] for a in ends for b in ends for s in steps]


def mutations(sub: Subject, v: View, n: int, full: bool) -> list[list]:
    """ops = [view attr, method, args...]; new elements are given by kind letters"""
    kinds = list(sub.kinds) if v.kinds == '' else list(v.kinds)
    ops: list[list] = []
    a = v.attr
    for k in kinds:
        ops.append([a, 'append', k])
        for i in index_menu(n):
            ops.append([a, 'insert', i, k])
        for i in range(-n - 1, n + 1):
            ops.append([a, 'set', i, k])
    k0, k1 = kinds[0], kinds[-1]
    for cnt in (0, 1, 2):
        ops.append([a, 'extend', [k0, k1][:cnt] if cnt < 2 else [k0, k1]])
    ops.append([a, 'iadd', [k1]])
    for i in range(-n - 1, n + 1):
        ops.append([a, 'pop', i])
        ops.append([a, 'del', i])
    ops.append([a, 'pop', None])
    for s in slice_menu(n, full):
        ops.append([a, 'delslice', s])
        for cnt in (0, 1, 2) if not full else (0, 1, 2, 3):
            ops.append([a, 'setslice', s, [k0, k1, k0][:cnt]])
    ops.append([a, 'clear'])
    if v.conv is not None and v.attr != 'values':
        ops.append([a, 'reverse'])   # node views cannot move attached nodes (refused by design: 'Cannot reuse node')
    ops.append([a, 'remove', 0])
    ops.append([a, 'remove', 'absent'])
    if v.conv is not None:
        ops.append([a, 'discard', 0])
        ops.append([a, 'discard', 'absent'])
    if v.attr.endswith('_with_comments'):
        # attribution calls change the list too (comments enter and leave it): afterwards every view must still agree
        ops.append([a, 'claim_all'])
        ops.append([a, 'unclaim_all'])
        ops.append([a, 'unclaim_first'])
    if v.mapping:
        ops.append([a, 'rename', 0, 'kx'])
        ops.append([a, 'rename', -1, 'k0'])
        for key in ('k0', 'k1', 'k2', 'kx'):
            ops.append([a, 'mdel', key])
            ops.append([a, 'mpop', key])
            ops.append([a, 'mpopd', key])
            ops.append([a, 'mset', key])
            ops.append([a, 'msetdefault', key])
    return ops


class Refused(Exception):
    pass


def _exc_class(e: BaseException) -> str:
    return type(e).__name__


def py_list_apply(L: list, meth: str, args: list, new: list, *, filtered: bool) -> tuple[Any, Optional[str]]:
    """Reference: Python list semantics (with the documented deviation for filtered views: a slice
    assignment of different length raises ValueError and changes nothing). Returns (result, exception class)."""
    try:
        if meth == 'append':
            L.append(new[0])
        elif meth == 'insert':
            L.insert(args[0], new[0])
        elif meth == 'set':
            L[args[0]] = new[0]
        elif meth in ('extend', 'iadd'):
            L.extend(new)
        elif meth == 'pop':
            return (L.pop() if args[0] is None else L.pop(args[0])), None
        elif meth == 'del':
            del L[args[0]]
        elif meth == 'delslice':
            del L[slice(*args[0])]
        elif meth == 'setslice':
            sl = slice(*args[0])
            if filtered and len(L[sl]) != len(new):
                raise ValueError('size mismatch (documented for filtered views)')
            L[sl] = new
        elif meth == 'clear':
            L.clear()
        elif meth == 'reverse':
            L.reverse()
        else:
            raise AssertionError(meth)
    except (IndexError, ValueError, KeyError) as e:
        return None, _exc_class(e)
    return None, None


def run_trace(case: dict, *, check_from: int = 0) -> tuple[core.CaseResult, Optional[tuple]]:
    """case = {subject, pattern, read (list of view attrs read first), ops}"""
    res = core.CaseResult()
    sub = SUBJECTS[case['subject']]
    try:
        root, m = sub.build(case['pattern'])
    except Exception as e:  # noqa
        res.outcomes['initial-text-rejected'] += 1
        return res, None
    views = {v.attr: v for v in sub.views}
    for attr in case.get('read', []):
        len(getattr(m, attr))
    counter = itertools.count(100)
    where0 = f'{case["subject"]} pattern {case["pattern"]!r} read {case.get("read", [])}'
    for step, op in enumerate(case['ops']):
        v = views[op[0]]
        meth = op[1]
        checked = step >= check_from
        where = f'{where0} after {case["ops"][:step + 1]}: '
        key_site = f'{sub.name}:{v.attr}.{meth}'
        raw_view = getattr(m, sub.raw)
        # reads before the call, through the views that are alive: whatever a view memoises from a read must not survive
        # the edit that follows
        for v0 in sub.views:
            w0 = m.__dict__.get(v0.attr)
            if w0 is None:
                continue
            try:
                len(w0)
                list(w0)
                if v0.mapping:
                    for key0 in ('k0', 'k1', 'kx'):
                        key0 in w0
                        w0.get(key0)
            except Exception:  # noqa: judged by the sweep of the step that broke it
                pass
        if meth == 'rename':
            # the key of an element is changed through the element; lookups by key were made before (the sweep of the
            # previous step) and must follow
            try:
                items_now = list(getattr(m, v.attr))
                if items_now:
                    items_now[op[2]].key = op[3]
            except Exception as e:  # noqa
                if checked:
                    res.fail(f'C10/call-raises-unexpected[{key_site}]', where + f'{type(e).__name__}: {e}')
                return res, None
            if checked:
                res.transitions += 1
                res.outcomes['rename:ok'] += 1
                if not consistency_sweep(sub, m, res, where, key_site):
                    return res, None
            continue
        if meth in ('claim_all', 'unclaim_all', 'unclaim_first'):
            try:
                if meth == 'claim_all':
                    raw_view.claim_interleaving_comments()
                elif meth == 'unclaim_all':
                    raw_view.unclaim_interleaving_comments()
                else:
                    first = [x for x in raw_view if isinstance(x, M.BlockComment)][:1]
                    raw_view.unclaim_interleaving_comments(first)
            except ValueError:
                pass
            except Exception as e:  # noqa
                if checked:
                    res.fail(f'C10/call-raises-unexpected[{key_site}]', where + f'{type(e).__name__}: {e}')
                return res, None
            if checked:
                res.transitions += 1
                res.outcomes[f'{meth}:ok'] += 1
                if not consistency_sweep(sub, m, res, where, key_site):
                    return res, None
            continue
        raw_b = list(raw_view)
        T = (lambda x: True) if v.kinds == '' else (lambda x, ks=v.kinds: sub.kind_of(x) in ks)
        proj_b = [x for x in raw_b if T(x)]
        comp_b = [x for x in raw_b if not T(x)]
        w = getattr(m, v.attr)
        by_value = v.conv is not None
        # ---- build arguments (fresh objects) for both sides
        newk = op[-1] if meth in ('append', 'insert', 'set') else (op[-1] if meth in ('extend', 'iadd', 'setslice') else [])
        if isinstance(newk, str):
            newk = [newk]
        impl_new, ref_new = [], []
        for k in newk:
            i = next(counter)
            if by_value:
                val = v.mk[k](i)
                impl_new.append(val)
                ref_new.append(val)
            else:
                node = sub.donors[k](i)
                impl_new.append(node)
                ref_new.append(node)
        ref_list = [v.conv(x) for x in proj_b] if by_value else list(proj_b)
        exp_res: Any = None
        exp_exc: Optional[str] = None
        args = op[2:-1] if meth in ('insert', 'set', 'setslice') else op[2:]
        got_res: Any = None
        got_exc: Optional[str] = None
        try:
            if meth in ('mdel', 'mpop', 'mpopd', 'mset', 'msetdefault'):
                exp_res, exp_exc, ref_list, got_res, got_exc = _mapping_step(sub, v, w, meth, op[2], proj_b, next(counter))
            elif meth in ('remove', 'discard'):
                target = ('zz-absent' if by_value else sub.donors[list(sub.kinds)[0]](0)) if op[2] == 'absent' else \
                    (ref_list[0] if ref_list else ('zz-absent' if by_value else sub.donors[list(sub.kinds)[0]](0)))
                present = any((x == target) if by_value else (x == target) for x in ref_list)
                if meth == 'remove':
                    if present:
                        for i2, x in enumerate(ref_list):
                            if x == target:
                                del ref_list[i2]
                                break
                    else:
                        exp_exc = 'ValueError'
                    w.remove(target)
                else:
                    ref_list = [x for x in ref_list if not (x == target)]
                    w.discard(target)
            else:
                exp_res, exp_exc = py_list_apply(ref_list, meth, args, ref_new, filtered=(v.kinds != ''))
                if meth == 'append':
                    w.append(impl_new[0])
                elif meth == 'insert':
                    w.insert(args[0], impl_new[0])
                elif meth == 'set':
                    w[args[0]] = impl_new[0]
                elif meth == 'extend':
                    w.extend(impl_new)
                elif meth == 'iadd':
                    w += impl_new
                elif meth == 'pop':
                    got_res = w.pop() if args[0] is None else w.pop(args[0])
                elif meth == 'del':
                    del w[args[0]]
                elif meth == 'delslice':
                    del w[slice(*args[0])]
                elif meth == 'setslice':
                    w[slice(*args[0])] = impl_new
                elif meth == 'clear':
                    w.clear()
                elif meth == 'reverse':
                    w.reverse()
        except (IndexError, ValueError, KeyError) as e:
            got_exc = _exc_class(e)
        except Exception as e:  # noqa
            if checked:
                res.fail(f'C10/call-raises-unexpected[{key_site}]', where + f'{type(e).__name__}: {e}')
            return res, None
        if not checked:
            if got_exc is not None and step + 1 < len(case['ops']):
                return res, None
            continue
        res.transitions += 1
        res.outcomes[f'{meth}:{got_exc or "ok"}'] += 1
        if got_exc != exp_exc:
            res.fail(f'C10/exception-differs-from-list-semantics[{key_site}]',
                     where + f'implementation {got_exc or "returned"}, reference {exp_exc or "returns"}')
            return res, None
        raw_a = list(getattr(m, sub.raw))
        if got_exc is not None:
            if len(raw_a) != len(raw_b) or any(x is not y for x, y in zip(raw_a, raw_b)):
                res.fail(f'C10/refused-call-changed-the-list[{key_site}]', where + 'raw list changed although the call raised')
                return res, None
        else:
            proj_a = [x for x in raw_a if T(x)]
            comp_a = [x for x in raw_a if not T(x)]
            seen_a = [v.conv(x) for x in proj_a] if by_value else proj_a
            ok = len(seen_a) == len(ref_list) and all(((x == y) if by_value else (x is y)) for x, y in zip(seen_a, ref_list))
            if not ok:
                res.fail(f'C10/view-result-differs-from-list-semantics[{key_site}]',
                         where + f'view now {show(sub, seen_a, by_value)}, reference {show(sub, ref_list, by_value)}')
                return res, None
            if len(comp_a) != len(comp_b) or any(x is not y for x, y in zip(comp_a, comp_b)):
                res.fail(f'C10/elements-outside-the-view-disturbed[{key_site}]',
                         where + f'elements not visible through {v.attr} changed: {show(sub, comp_b, False)} -> {show(sub, comp_a, False)}')
                return res, None
            if meth == 'pop':
                same = (got_res == exp_res) if by_value else (got_res is exp_res)
                if not same:
                    res.fail(f'C10/pop-returns-wrong-element[{key_site}]', where + f'returned {got_res!r}, reference {exp_res!r}')
                    return res, None
            if meth in ('mpop', 'mpopd') and got_res is not _SKIP and got_res != exp_res and got_res is not exp_res:
                res.fail(f'C10/mapping-pop-returns-wrong-value[{key_site}]', where + f'returned {got_res!r}, reference {exp_res!r}')
                return res, None
        # ---- all views agree with the raw list now; reads follow list semantics
        if not consistency_sweep(sub, m, res, where, key_site):
            return res, None
        if got_exc is not None and step + 1 < len(case['ops']):
            return res, None
    key = state_key(sub, m)
    return res, key


_SKIP = object()


def _mapping_step(sub: Subject, v: View, w: Any, meth: str, key: str, proj_b: list, i: int):
    try:
        return _mapping_step_inner(sub, v, w, meth, key, proj_b, i) + (None,)
    except KeyError:
        assoc = [it.key for it in proj_b]
        exp_exc = 'KeyError' if (key not in assoc and meth in ('mdel', 'mpop')) else None
        return None, exp_exc, list(proj_b), _SKIP, 'KeyError'


def _mapping_step_inner(sub: Subject, v: View, w: Any, meth: str, key: str, proj_b: list, i: int):
    """first-match association-list reference for the meta mapping views; returns
    (expected result, expected exception, expected projection (identity list), got result)."""
    assoc = [(it.key, it) for it in proj_b]
    idx = next((n for n, (k, _) in enumerate(assoc) if k == key), None)
    ref = list(proj_b)
    exp_res: Any = None
    exp_exc = None
    got: Any = _SKIP
    raw = v.mapping == 'raw'
    if meth == 'mdel':
        if idx is None:
            exp_exc = 'KeyError'
        else:
            del ref[idx]
        del w[key]
    elif meth in ('mpop', 'mpopd'):
        if idx is None:
            if meth == 'mpop':
                exp_exc = 'KeyError'
            else:
                exp_res = 'dflt'
        else:
            exp_res = ref[idx] if raw else ref[idx].value
            del ref[idx]
        got = w.pop(key) if meth == 'mpop' else w.pop(key, 'dflt')
        if not raw and idx is not None:
            got = _SKIP if isinstance(exp_res, M.RawModel) else got   # detached raw value objects: compared by C09
    elif meth == 'mset':
        if raw:
            item = M.MetaItem.from_value(key, D(i), indent=(proj_b[0].indent if proj_b else '  '))
            if idx is None:
                ref.append(item)
            else:
                ref[idx] = item
            w[key] = item
        else:
            val = D(i)
            w[key] = val
            if idx is None:
                fresh = [x for x in list(w) if not any(x is y for y in proj_b)]
                ref.append(fresh[0] if len(fresh) == 1 and fresh[0].key == key and fresh[0].value == val else _NEW)
            elif ref[idx].value != val:
                ref[idx] = _NEW     # first match must now carry the value
    elif meth == 'msetdefault':
        if raw:
            item = M.MetaItem.from_value(key, D(i), indent=(proj_b[0].indent if proj_b else '  '))
            got = w.setdefault(key, item)
            if idx is None:
                ref.append(item)
                exp_res = item
            else:
                exp_res = ref[idx]
            if got is not exp_res:
                raise ValueError(f'setdefault returned {got!r}')
        else:
            val = D(i)
            got = w.setdefault(key, val)
            if idx is None:
                fresh = [x for x in list(w) if not any(x is y for y in proj_b)]
                ref.append(fresh[0] if len(fresh) == 1 and fresh[0].key == key and fresh[0].value == val else _NEW)
                if got != val:
                    raise ValueError(f'setdefault returned {got!r} for a new key')
            elif got != ref[idx].value:
                raise ValueError(f'setdefault returned {got!r}, first match has {ref[idx].value!r}')
            got = _SKIP
    return exp_res, exp_exc, ref, got


class _New:
    def __repr__(self) -> str:
        return '<new item>'


_NEW = _New()


def _safe_pr(x: Any) -> str:
    try:
        if isinstance(x, M.RawModel) and x.token_store is not None:
            return tree.pr(x).strip()
        if isinstance(x, M.RawTokenModel):
            return x.raw_text
    except Exception as e:  # noqa: printing a corrupted node must not hide the finding
        return f'<unprintable: {type(e).__name__}>'
    return '?'


def show(sub: Subject, xs: list, by_value: bool) -> str:
    out = []
    for x in xs:
        if isinstance(x, _New):
            out.append('<new>')
        elif isinstance(x, M.RawModel):
            out.append(sub.kind_of(x) + ':' + _safe_pr(x))
        else:
            out.append(repr(x))
    return '[' + ', '.join(out) + ']'


def consistency_sweep(sub: Subject, m: Any, res: core.CaseResult, where: str, site: str) -> bool:
    raw_now = list(getattr(m, sub.raw))
    for v in sub.views:
        w = getattr(m, v.attr)
        T = (lambda x: True) if v.kinds == '' else (lambda x, ks=v.kinds: sub.kind_of(x) in ks)
        expect = [x for x in raw_now if T(x)]
        exp_seen = [v.conv(x) for x in expect] if v.conv is not None else expect
        try:
            got = list(w)
            n = len(w)
        except Exception as e:  # noqa
            res.fail(f'C10/view-iteration-raises[{sub.name}:{v.attr}]', where + f'list({v.attr}) raises {type(e).__name__}: {e}')
            return False
        same = len(got) == len(exp_seen) and all(((a == b) if v.conv is not None else (a is b)) for a, b in zip(got, exp_seen))
        if not same or n != len(exp_seen):
            res.fail(f'C10/view-differs-from-raw-list[{sub.name}:{v.attr}]',
                     where + f'{v.attr} shows {show(sub, got, v.conv is not None)} (len {n}) but the raw list filtered now is '
                     f'{show(sub, exp_seen, v.conv is not None)}')
            return False
        # reads: int and slice indexing follow list semantics
        for i in range(-len(exp_seen) - 1, len(exp_seen) + 1):
            try:
                a = w[i]
                ea = None
            except IndexError:
                a, ea = None, 'IndexError'
            except Exception as e:  # noqa
                a, ea = None, type(e).__name__
            try:
                b = exp_seen[i]
                eb = None
            except IndexError:
                b, eb = None, 'IndexError'
            if ea != eb or (ea is None and not ((a == b) if v.conv is not None else (a is b))):
                res.fail(f'C10/getitem-differs-from-list-semantics[{sub.name}:{v.attr}]', where + f'{v.attr}[{i}] -> {a!r}/{ea}, reference {b!r}/{eb}')
                return False
        for s in slice_menu(len(exp_seen), False):
            sl = slice(*s)
            try:
                a = w[sl]
            except Exception as e:  # noqa
                res.fail(f'C10/getslice-raises[{sub.name}:{v.attr}]', where + f'{v.attr}[{s}] raises {type(e).__name__}: {e}')
                return False
            b = exp_seen[sl]
            if len(a) != len(b) or not all(((x == y) if v.conv is not None else (x is y)) for x, y in zip(a, b)):
                res.fail(f'C10/getslice-differs-from-list-semantics[{sub.name}:{v.attr}]', where + f'{v.attr}[{s}] wrong')
                return False
        if v.mapping:
            assoc = [(it.key, it) for it in expect]
            try:
                ks, vs, its = list(w.keys()), list(w.values()), list(w.items())
                rks = list(reversed(w.keys()))
            except Exception as e:  # noqa
                res.fail(f'C10/mapping-view-raises[{sub.name}:{v.attr}]', where + f'{type(e).__name__}: {e}')
                return False
            exp_vals = [it if v.mapping == 'raw' else it.value for _, it in assoc]
            if ks != [k for k, _ in assoc] or rks != [k for k, _ in assoc][::-1] or len(vs) != len(exp_vals) or \
                    any(not (a is b or a == b) for a, b in zip(vs, exp_vals)) or [k for k, _ in its] != ks:
                res.fail(f'C10/mapping-keys-values-differ[{sub.name}:{v.attr}]', where + f'keys {ks} values {vs!r} vs association list {assoc!r}')
                return False
            for key in ('k0', 'k1', 'k2', 'kx'):
                first = next((it for k, it in assoc if k == key), None)
                try:
                    g = w[key]
                    ge = None
                except KeyError:
                    g, ge = None, 'KeyError'
                if (first is None) != (ge == 'KeyError'):
                    res.fail(f'C10/mapping-lookup-differs[{sub.name}:{v.attr}]', where + f'{v.attr}[{key!r}] -> {ge or g!r}, first match {first!r}')
                    return False
                if first is not None:
                    e = first if v.mapping == 'raw' else first.value
                    if not (g is e or g == e):
                        res.fail(f'C10/mapping-lookup-not-first-match[{sub.name}:{v.attr}]', where + f'{v.attr}[{key!r}] -> {g!r}, first match gives {e!r}')
                        return False
                if (key in w) != (first is not None) or (w.get(key, _SKIP) is _SKIP) != (first is None):
                    res.fail(f'C10/mapping-contains-differs[{sub.name}:{v.attr}]', where + f'{key!r} in {v.attr} wrong')
                    return False
    return True


def state_key(sub: Subject, m: Any) -> tuple:
    raw_now = list(getattr(m, sub.raw))
    pattern = ''.join(sub.kind_of(x) for x in raw_now)
    tables = []
    for v in sub.views:
        w = m.__dict__.get(v.attr)
        if w is None:
            tables.append(None)
        else:
            tables.append(tuple(getattr(w, '_raw_indexes', ())))
    keys = tuple(getattr(x, 'key', None) for x in raw_now) if any(v.mapping for v in sub.views) else ()
    # hidden wiring: is the index table a view reads from still the list object its update handler maintains?
    wired = []
    raw_w = m.__dict__.get(sub.raw)
    handlers = list(getattr(raw_w, '_update_handlers', ())) if raw_w is not None else []
    for v in sub.views:
        w = m.__dict__.get(v.attr)
        table = getattr(w, '_raw_indexes', None) if w is not None else None
        wired.append(None if table is None else any(getattr(h, '_raw_indexes', None) is table for h in handlers))
    return (pattern, tuple(tables), keys, tuple(wired))


def run_case(case: dict) -> core.CaseResult:
    if 'ops' in case:
        res, _ = run_trace(case)
        return res
    return explore_subject(case)


def expand_state(args: tuple) -> tuple:
    subject, pattern, read, hist, cap, full = args
    sub = SUBJECTS[subject]
    shard = core.Shard()
    base = {'subject': subject, 'pattern': pattern, 'read': read}
    r0, key0 = run_trace(dict(base, ops=hist), check_from=len(hist))
    if key0 is None:
        return [], shard
    root, m = sub.build(pattern)   # only to size the menus: replay to get current lengths
    # current lengths come from the state key
    npat = len(key0[0])
    succ = []
    for v in sub.views:
        nview = npat if v.kinds == '' else sum(1 for k in key0[0] if k in v.kinds)
        for op in mutations(sub, v, nview, full):
            case = dict(base, ops=hist + [op])
            try:
                r, key1 = run_trace(case, check_from=len(hist))
            except Exception:  # noqa
                import traceback
                shard.errors.append(f'harness error on {case}:\n{traceback.format_exc()}')
                continue
            if key1 is not None:
                h = core.h64((subject, key1))
                r.states.add(h)
                if key1 != key0:
                    r.nontrivial.add(h)
                if r.sample is None and len(hist) >= 1:
                    r.sample = case
                if len(key1[0]) <= cap:
                    succ.append((key1, hist + [op]))
            shard.add(case, r)
    return succ, shard


def explore_subject_parallel(run: core.Run, subject: str, cap: int, full: bool, max_depth: int) -> None:
    import multiprocessing
    sub = SUBJECTS[subject]
    kinds = list(sub.kinds)
    patterns = [''.join(p) for n in range(0, cap + 1) for p in itertools.product(kinds, repeat=n)]
    view_attrs = [v.attr for v in sub.views if v.attr != sub.raw]
    reads = [list(c) for r in range(len(view_attrs) + 1) for c in itertools.combinations(view_attrs, r)]
    seen: set = set()
    frontier = []
    for pat in patterns:
        for rd in reads:
            r, key = run_trace({'subject': subject, 'pattern': pat, 'read': rd, 'ops': []})
            if key is None:
                continue
            if key not in seen:
                seen.add(key)
                frontier.append((subject, pat, rd, [], cap, full))
                run.total.states.add(core.h64((subject, key)))
    ctx = multiprocessing.get_context('fork')
    depth = 0
    with ctx.Pool(core.NPROC) as pool:
        while frontier and depth < max_depth:
            depth += 1
            nxt = []
            for (succ, shard), w in zip(pool.imap(expand_state, frontier, chunksize=max(1, len(frontier) // (core.NPROC * 6))), frontier):
                run.total.merge(shard)
                for key1, h2 in succ:
                    if key1 not in seen:
                        seen.add(key1)
                        nxt.append((subject, w[1], w[2], h2, cap, full))
            run.log(f'{subject} depth {depth}: {len(frontier)} states expanded -> {len(nxt)} new; total states {len(seen)}, '
                    f'transitions {run.total.transitions}, violating observations {run.total.violation_count}')
            frontier = nxt
            if run.total.errors:
                break
    run.bounds.setdefault('subjects', {})[f'{subject} (cap {cap}, depth {max_depth})'] = {
        'max_list_length': cap, 'states': len(seen), 'depth_completed': depth, 'fixpoint': not frontier,
        'initial_patterns': len(patterns), 'views_read_subsets': len(reads)}
    if frontier and run.tier != 'quick':
        run.caps_hit.append(f'{subject}: depth bound {max_depth} reached with {len(frontier)} unexpanded states (not a fixpoint)')


def explore_subject(case: dict) -> core.CaseResult:
    raise NotImplementedError('subject-level cases are explored by main(); replay uses trace cases')


def main(run: core.Run) -> None:
    tier = run.tier
    run.rule = ('per repeated field with several views: BFS over states (element kinds, which views were read, their index tables) '
                'from every initial list of size 0..cap over the element kinds x every subset of views read first; transition = one '
                'mutating call through one view with every int / slice / step / key argument of the menu; oracle = Python list / '
                'first-match association list in lock step + every view re-derived from the raw list + every read; non-trivial = '
                'distinct canonical post-states that differ from the pre-state')
    run.assumptions = ['list length capped (states whose list exceeds the cap are checked but not expanded)',
                       'documented deviation: a filtered-view slice assignment of different length raises ValueError and changes nothing',
                       'where a new element goes relative to elements not visible through the view is not prescribed (only the projection and the complement order are)']
    if tier == 'quick':
        # lists up to 3 elements as initial states, every mutation once from each (depth 1); the two-kind string views also
        # at depth 2 from lists up to 2
        plan = [('file.directives', 3, False, 1), ('txn.postings', 3, False, 1), ('txn.meta', 3, False, 1),
                ('posting.meta', 2, False, 1), ('txn.tags_links', 3, False, 1), ('txn.tags_links', 2, False, 2),
                ('open.currencies', 3, False, 2), ('custom.values', 2, False, 2)]
    else:
        plan = [(s, 3, True, 3) for s in SUBJECTS]
    for subject, cap, full, depth in plan:
        explore_subject_parallel(run, subject, cap, full, depth)
        if run.total.errors:
            break
