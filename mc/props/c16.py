"""C16 - the editor writes exactly the edited files, exactly, and nothing else (E-FS).

One *case* = one small directory world x one API x one body (files edited, one structural action, raise
point) x a list of root-path spellings.  Every (case, spelling) is executed on the REAL Editor against the
REAL file system inside a fresh tempfile.mkdtemp() directory, which is removed in a finally block; the
working directory is changed only inside the execution and always restored.  The oracle is a byte- and
metadata-exact dictionary model of that directory, computed from the ORIGINAL BYTES only (binary I/O).

world layout on disk:   <tmp>/dir/main.bean, a.bean, b.bean, sub/c.bean, ...   (everything under <tmp> is
snapshotted, so a stray file created next to the world or in the cwd is seen as well)
"""
from __future__ import annotations

import io
import itertools
import os
import pathlib
import posixpath
import re
import shutil
import tempfile
from typing import Any, Optional

from autobean_refactor import editor as editor_lib, models as M, printer

from .. import core, docs

PROPERTY = 'C16'

NAMES = ['main.bean', 'a.bean', 'b.bean', 'sub/c.bean']
PAST_NS = 1_000_000_000 * 10 ** 9          # fixed past instant for every mtime (2001-09-09)
OLD_ACCOUNT = b'Assets:Old'
NEW_ACCOUNT = 'Assets:EditedLonger'
SPELLINGS = ['abs', 'rel', 'bare', 'dot', 'dotdot']
API_NAME = {'rec': 'edit_file_recursive', 'one': 'edit_file'}
ERRLINE_KEY = 'C16/include-error-line'


class Boom(Exception):
    """Raised by the body."""


_OWNER = [0]


def _tmp_base() -> Optional[str]:
    """Where the per-execution tempfile.mkdtemp() directories are made.  $VERIF_C16_TMP if set; else /dev/shm when it is
    usable (tmpfs: on this image /tmp is a virtio disk on which mkdir/unlink cost ~2 ms each *aggregated over 16 workers*,
    i.e. minutes per tier of pure journal waiting); else the system temporary directory (tempfile's default)."""
    b = os.environ.get('VERIF_C16_TMP')
    if b:
        return b
    if os.path.isdir('/dev/shm') and os.access('/dev/shm', os.W_OK | os.X_OK):
        return '/dev/shm'
    return None


def _tmp_prefix() -> str:
    return 'c16-%d-' % (_OWNER[0] or os.getpid())


# --------------------------------------------------------------------------------------------
# worlds

def graph_world(k: int, mask: int, eols: str, pad: int = 0) -> list:
    """k files; bit i*k+j of mask = file i includes file j (spelled relative to file i's directory)."""
    files = []
    for i in range(k):
        incs = [posixpath.relpath(NAMES[j], posixpath.dirname(NAMES[i]) or '.')
                for j in range(k) if mask >> (i * k + j) & 1]
        files.append([NAMES[i], eols[i], incs, pad])
    return files


def expand_world(w: Any) -> list:
    if isinstance(w, dict):
        return [list(f) + [0] * (4 - len(f)) for f in w['files']]
    if w[0] == 'g':
        return graph_world(w[1], w[2], w[3])
    raise ValueError(w)


def _eol_of(kind: str, i: int) -> str:
    if kind == 'l':
        return '\n'
    if kind == 'c':
        return '\r\n'
    return '\r\n' if i % 2 == 0 else '\n'   # 'm': both endings inside one file


def file_bytes(rel: str, eol: str, incs: list, pad: int, absdir: str) -> bytes:
    tag = rel.replace('/', '-').replace('.bean', '')
    lines = [f'; file {rel}', f'option "title" "{tag}"']
    for _ in range(pad // 2):
        lines += ['', '; pad']
    lines += ['include "%s"' % inc.replace('{ABS}', absdir) for inc in incs]
    lines += ['2000-01-01 open ' + OLD_ACCOUNT.decode()]
    return ''.join(line + _eol_of(eol, i) for i, line in enumerate(lines)).encode('ascii')


def expected_edit(orig: bytes) -> bytes:
    """Independent textual effect of the body's edit: the last account lexeme replaced, nothing else."""
    off = orig.rindex(OLD_ACCOUNT)
    return orig[:off] + NEW_ACCOUNT.encode('ascii') + orig[off + len(OLD_ACCOUNT):]


# -- independent include resolution (reference for "visited exactly once")

def _seg_re(seg: str) -> str:
    body = ''.join('[^/]*' if ch == '*' else '[^/]' if ch == '?' else re.escape(ch) for ch in seg)
    # shell rule (glob.glob): a wildcard never matches a name that starts with a dot
    return ('(?![.])' if seg[:1] in ('*', '?') else '') + body


def _glob_match(pattern: str, names: list) -> list:
    segs = pattern.split('/')
    rx = ''
    for i, s in enumerate(segs):
        last = i == len(segs) - 1
        if s == '**' and not last:
            rx += '(?:(?![.])[^/]+/)*'
        else:
            rx += _seg_re(s) + ('' if last else '/')
    return [n for n in names if re.fullmatch(rx, n)]


def resolve(inc: str, from_rel: str, names: list) -> list:
    p = inc[len('{ABS}/'):] if inc.startswith('{ABS}/') else posixpath.join(posixpath.dirname(from_rel), inc)
    p = posixpath.normpath(p)
    if p.startswith('../') or p == '..':
        return []
    if any(c in p for c in '*?['):
        return _glob_match(p, names)
    return [p] if p in names else []


def expected_visit(files: list) -> tuple:
    """(visited rel names in BFS order, [(file, include) that match nothing, reachable])."""
    names = [f[0] for f in files]
    incs = {f[0]: f[2] for f in files}
    seen: list = []
    nomatch = []
    queue = ['main.bean']
    while queue:
        cur = queue.pop(0)
        if cur in seen:
            continue
        seen.append(cur)
        for inc in incs[cur]:
            m = resolve(inc, cur, names)
            if not m:
                nomatch.append((cur, inc))
            queue.extend(m)
    return seen, nomatch


# --------------------------------------------------------------------------------------------
# execution on the real file system

def _snap(top: str) -> tuple:
    files, dirs = {}, set()
    for dp, dns, fns in os.walk(top):
        for d in dns:
            dirs.add(os.path.relpath(os.path.join(dp, d), top))
        for fn in fns:
            p = os.path.join(dp, fn)
            st = os.lstat(p)
            with open(p, 'rb') as f:
                files[os.path.relpath(p, top)] = (f.read(), st.st_mtime_ns, st.st_ino)
    return files, dirs


def _root(sp: str, as_path: bool, top: str) -> tuple:
    world = os.path.join(top, 'dir')
    root, cwd = {
        'abs': (os.path.join(world, 'main.bean'), top),
        'rel': ('dir/main.bean', top),
        'bare': ('main.bean', world),
        'dot': ('./main.bean', world),
        'dotdot': ('dir/../dir/main.bean', top),
    }[sp]
    return (pathlib.Path(root) if as_path else root), cwd


def _print(model) -> str:
    return printer.print_model(model, io.StringIO()).getvalue()


def _edit(file: M.File) -> None:
    opens = [d for d in file.raw_directives if isinstance(d, M.Open)]
    opens[-1].account = NEW_ACCOUNT


def _new_text(eol: str) -> str:
    if eol == 'e':          # a new entry whose model prints nothing: the (empty) file must still be created
        return ''
    e = '\r\n' if eol == 'c' else '\n'
    return f'; new file{e}2000-01-01 open Assets:New{e}'


def _execute(files: list, api: str, sp: str, as_path: bool, edit: list, st: Optional[list],
             rz: Optional[str]) -> dict:
    """Build the world, run the real editor with the scripted body, return raw observations."""
    obs: dict = {'entry_exc': None, 'exit_exc': None, 'boom': None, 'keys': None, 'key_rel': None,
                 'added': {}, 'skipped': []}
    parser = docs.P()
    ed = editor_lib.Editor(parser)
    top = os.path.realpath(tempfile.mkdtemp(prefix=_tmp_prefix(), dir=_tmp_base()))
    old_cwd = os.getcwd()
    try:
        world = os.path.join(top, 'dir')
        os.mkdir(world)
        for rel, eol, incs, pad in files:
            p = os.path.join(world, rel)
            os.makedirs(os.path.dirname(p), exist_ok=True)
            with open(p, 'wb') as f:
                f.write(file_bytes(rel, eol, incs, pad, world))
            os.utime(p, ns=(PAST_NS, PAST_NS))
        obs['world'] = world
        obs['before'] = _snap(top)
        root, cwd = _root(sp, as_path, top)
        steps = [['edit', r] for r in edit] + ([st] if st else [])
        cut = {None: None, 'before': 0, 'between': 1, 'after': len(steps)}[rz]
        phase = 'entry'
        os.chdir(cwd)
        try:
            try:
                if api == 'one':
                    with ed.edit_file(root) as file:
                        phase = 'body'
                        for n, step in enumerate(steps):
                            if cut == n:
                                raise Boom()
                            _edit(file)
                        if cut == len(steps):
                            raise Boom()
                        phase = 'exit'
                else:
                    with ed.edit_file_recursive(root) as mapping:
                        phase = 'body'
                        keys = list(mapping)
                        obs['keys'] = keys
                        key_rel = {k: os.path.relpath(os.path.realpath(k), world) for k in keys}
                        obs['key_rel'] = key_rel
                        by_rel: dict = {}
                        for k in keys:
                            by_rel.setdefault(key_rel[k], []).append(k)
                        for n, step in enumerate(steps):
                            if cut == n:
                                raise Boom()
                            if step[0] == 'add':
                                if 'main.bean' not in by_rel:
                                    obs['skipped'].append(step)
                                    continue
                                key = os.path.join(os.path.dirname(by_rel['main.bean'][0]), step[1])
                                model = parser.parse(_new_text(step[2]), M.File)
                                obs['added'][step[1]] = _print(model).encode('utf-8')
                                mapping[key] = model
                            elif step[1] not in by_rel:
                                obs['skipped'].append(step)
                            elif step[0] == 'edit':
                                _edit(mapping[by_rel[step[1]][0]])
                            elif step[0] == 'respell':
                                # take the model out and put it back under another spelling of the same path: the file is
                                # "removed" and "added" in one session and must simply hold the (edited) model afterwards
                                k0 = by_rel[step[1]][0]
                                model = mapping.pop(k0)
                                mapping[os.path.join(os.path.dirname(k0) or '.', '.', os.path.basename(k0))] = model
                            else:
                                del mapping[by_rel[step[1]][0]]
                        if cut == len(steps):
                            raise Boom()
                        phase = 'exit'
            except Boom:
                obs['boom'] = phase
            except Exception as e:  # noqa: whatever the implementation raises is an observation
                if phase == 'body':
                    raise               # the scripted body itself failed: harness error, no verdict
                obs[phase + '_exc'] = e
                m = _MSG.match(str(e))
                if m:                   # the path in the message is relative to the cwd of the call
                    obs['err'] = (m.group(1), os.path.relpath(os.path.realpath(m.group(2)), top), int(m.group(3)))
        finally:
            os.chdir(old_cwd)
        obs['after'] = _snap(top)
    finally:
        os.chdir(old_cwd)
        shutil.rmtree(top, ignore_errors=True)
    return obs


# --------------------------------------------------------------------------------------------
# oracle

def _meta_change(b: tuple, a: tuple) -> str:
    """Which metadata changed - without the values, so that finding texts are reproducible."""
    return ' and '.join(n for n, x, y in (('st_mtime_ns', b[1], a[1]), ('st_ino', b[2], a[2])) if x != y) + ' changed'


def _diff(before: tuple, after: tuple, meta: bool = True) -> list:
    out = []
    bf, bd = before
    af, ad = after
    for p in sorted(set(bf) | set(af)):
        if p not in af:
            out.append(f'{p}: deleted')
        elif p not in bf:
            out.append(f'{p}: created with {af[p][0]!r}')
        elif bf[p][0] != af[p][0]:
            out.append(f'{p}: bytes {bf[p][0]!r} -> {af[p][0]!r}')
        elif meta and bf[p][1:] != af[p][1:]:
            out.append(f'{p}: rewritten ({_meta_change(bf[p], af[p])}), same bytes')
    for d in sorted(bd ^ ad):
        out.append(f'directory {d}: ' + ('created' if d in ad else 'deleted'))
    return out


_MSG = re.compile(r"No files match (.*) \((.*):(\d+)\)$", re.S)


def _error_line(exc: Exception, obs: dict) -> Optional[tuple]:
    """(c, base): message line minus get_position(first_token).line of that include computed on an
    independent parse, and minus the 0-based index of the line in the file's bytes."""
    if obs.get('err') is None:
        return None
    fname_repr, rel, line = obs['err']
    files = obs['before'][0]
    if rel not in files:
        return None
    text = files[rel][0].decode('ascii')
    model = docs.P().parse(text, M.File)
    for d in model.raw_directives:
        if isinstance(d, M.Include) and repr(d.filename) == fname_repr:
            pos = model.token_store.get_position(d.first_token)
            off = text.index('include ' + d.raw_filename.raw_text)
            return line - pos.line, line - text.count('\n', 0, off)
    return None


def _judge(files: list, api: str, sp: str, as_path: bool, edit: list, st: Optional[list], rz: Optional[str],
           res: core.CaseResult, case1: dict) -> Optional[tuple]:
    """Execute one spelling and apply clauses (1)-(5).  Returns an outcome signature for clause (6), or
    None when a violation was recorded for this spelling."""
    obs = _execute(files, api, sp, as_path, edit, st, rz)
    res.transitions += 1
    apin = API_NAME[api]
    what = (f'{apin}({"Path" if as_path else "str"} spelling {sp!r}) on '
            f'{[(f[0], f[1], f[2]) for f in files]}, body: edit {edit}, {st}, raise {rz}: ')
    before, after = obs['before'], obs['after']
    visited, nomatch = expected_visit(files) if api == 'rec' else (['main.bean'], [])

    def fail(key: str, text: str) -> None:       # the random directory name must not make the text non-deterministic
        res.fail(key, (what + text).replace(os.path.dirname(obs['world']), '<tmp>'), case1)

    # -- entry
    if obs['entry_exc'] is not None:
        exc = obs['entry_exc']
        d = _diff(before, after)
        if nomatch:
            res.outcomes[f'entry-fault:{type(exc).__name__}'] += 1
            if d:
                fail('C16/touched-although-entry-failed', f'entry raised {exc!r} and the directory changed: {d}')
                return None
            cl = _error_line(exc, obs) if isinstance(exc, ValueError) else None
            if cl is None:
                res.counters['include-error-line-unparsed'] += 1
            else:
                res.counters[f'include-error-line-c={cl[0]}'] += 1
                res.counters[f'include-error-line-minus-0based-index={cl[1]}'] += 1
                if cl[0] not in (0, 1):
                    fail(ERRLINE_KEY, f'{exc!r}: line in message = get_position(first_token).line + {cl[0]}')
                    return None
            return ('entry-fault', type(exc).__name__, cl and cl[0])
        fail(f'C16/entry-raises[{apin}]', f'{type(exc).__name__}: {exc}' + (f'; directory changed: {d}' if d else ''))
        return None
    if nomatch:
        res.outcomes['include-matching-nothing-not-reported'] += 1

    # -- (4) each file exactly once
    if api == 'rec':
        rels = sorted(obs['key_rel'].values())
        dup = sorted({r for r in rels if rels.count(r) > 1})
        if dup:
            fail('C16/file-visited-twice-via-two-spellings',
                 f'mapping keys {obs["keys"]}: {dup} present under more than one key')
            return None
        if set(rels) - set(visited):
            fail('C16/unincluded-file-visited', f'mapping keys {obs["keys"]}, expected files {visited}')
            return None
        if set(visited) - set(rels):
            fail('C16/included-file-not-visited', f'mapping keys {obs["keys"]}, expected files {visited}')
            return None
    if obs['skipped']:
        raise AssertionError(f'harness: steps {obs["skipped"]} not applicable')

    # -- (5) body raises
    if rz is not None:
        d = _diff(before, after)
        if obs['boom'] != 'body':
            res.outcomes['body-exception-not-propagated-as-is'] += 1
        else:
            res.outcomes['body-raised'] += 1
        if d:
            fail(f'C16/touched-although-body-raised[{apin}]', f'directory changed: {d}')
            return None
        return ('raised', obs['boom'], type(obs['exit_exc']).__name__)

    # -- exit
    if obs['exit_exc'] is not None:
        exc = obs['exit_exc']
        d = _diff(before, after, meta=False)
        rootdir = os.path.dirname(os.path.normpath(_root(sp, as_path, '/x')[0]))
        if isinstance(exc, FileNotFoundError) and rootdir == '' and exc.filename == '':     # os.makedirs('')
            key = 'C16/bare-relative-path-exit-fails'
        else:
            key = f'C16/exit-raises[{apin}]'
        fail(key, f'leaving the block raised {type(exc).__name__}: {exc}; changes on disk: {d or "none"}')
        return None

    # -- (1) (2) (3) directory model
    exp = {p: v[0] for p, v in before[0].items()}
    same = set(exp)
    for r in edit:
        p = os.path.join('dir', r)
        exp[p] = expected_edit(exp[p])
        same.discard(p)
    exp_dirs = set(before[1])
    removed = added = None
    if st and st[0] == 'del':
        removed = os.path.join('dir', st[1])
        del exp[removed]
        same.discard(removed)
    if st and st[0] == 'respell':
        # removed under one spelling and added under another: delete + create is what was asked for, so the file may be
        # rewritten; its content must be the (edited) model
        same.discard(os.path.join('dir', st[1]))
    if st and st[0] == 'add':
        added = os.path.join('dir', st[1])
        exp[added] = obs['added'][st[1]]
        same.discard(added)
        d = os.path.dirname(added)
        while d and d not in exp_dirs:
            exp_dirs.add(d)
            d = os.path.dirname(d)
    af = after[0]
    bad = False
    for p in sorted(set(exp) | set(af)):
        if p == removed:
            if p in af:
                fail('C16/removed-entry-not-deleted', f'{p} still exists')
                bad = True
        elif p == added:
            if p not in af:
                fail('C16/added-entry-not-created', f'{p} does not exist')
                bad = True
            elif af[p][0] != exp[p]:
                fail('C16/added-entry-bytes-differ', f'{p} contains {af[p][0]!r}, printed model {exp[p]!r}')
                bad = True
        elif p not in exp:
            fail('C16/stray-file-created', f'{p} created with {af[p][0]!r}')
            bad = True
        elif p not in af:
            fail('C16/file-deleted-unexpectedly', f'{p} no longer exists')
            bad = True
        elif p in same:
            if af[p][0] != exp[p]:
                fail(f'C16/unedited-file-changed[{apin}]', f'{p}: {exp[p]!r} -> {af[p][0]!r}')
                bad = True
            elif af[p][1:] != before[0][p][1:]:
                fail(f'C16/unedited-file-rewritten[{apin}]',
                     f'{p}: model not changed, bytes identical, but {_meta_change(before[0][p], af[p])}')
                bad = True
        elif af[p][0] != exp[p]:
            if exp[p].replace(b'\r\n', b'\n') == af[p][0]:
                fail(f'C16/crlf-not-preserved[{apin}]',
                     f'{p}: original {before[0][p][0]!r}, expected {exp[p]!r}, on disk {af[p][0]!r}')
            else:
                fail(f'C16/edited-file-bytes-differ[{apin}]',
                     f'{p}: original {before[0][p][0]!r}, expected {exp[p]!r}, on disk {af[p][0]!r}')
            bad = True
    if after[1] != exp_dirs:
        fail('C16/directories-differ', f'directories {sorted(after[1])}, expected {sorted(exp_dirs)}')
        bad = True
    if bad:
        return None
    res.outcomes['block-completed:' + ('changes-written' if (edit or st) else 'nothing-to-write')] += 1
    absdir = obs['world'].encode()
    return ('done', core.h64(sorted((p, v[0].replace(absdir, b'{ABS}')) for p, v in af.items())))


def _run_errline(case: dict) -> core.CaseResult:
    """C08 cross-check: one constant c over all worlds with an include matching nothing."""
    res = core.CaseResult()
    seen: dict = {}
    for w in case['worlds']:
        files = expand_world(w)
        for sp in case.get('sp', ['abs']):
            obs = _execute(files, 'rec', sp, False, [], None, None)
            res.transitions += 1
            exc = obs['entry_exc']
            cl = _error_line(exc, obs) if isinstance(exc, ValueError) else None
            if cl is None:
                res.outcomes['errline:no-parsable-message'] += 1
                continue
            res.outcomes[f'errline:c={cl[0]}'] += 1
            res.states.add(core.h64((files, sp)))
            res.nontrivial.add(core.h64(files))
            seen.setdefault(cl[0], (w, sp, str(exc).replace(obs['world'], '<dir>')))
    if len(seen) > 1 or any(c not in (0, 1) for c in seen):
        ws = [v[0] for v in seen.values()][:2]
        res.fail(ERRLINE_KEY, 'line number in "No files match" message = get_position(first_token).line + c with '
                 f'c not one constant in {{0,1}}: {dict((c, v[2]) for c, v in seen.items())}',
                 {'kind': 'errline', 'worlds': [{'files': expand_world(w)} for w in ws],
                  'sp': sorted({v[1] for v in seen.values()})})
    res.sample = {'errline_c': sorted(seen)}
    return res


def _run_sessions(case: dict) -> core.CaseResult:
    """Several edit_file_recursive sessions in ONE process: between sessions the directory changes (through the editor or
    behind its back, or the next session runs in another directory with the same relative spellings). Every session must
    visit exactly the files the include directives match on disk at that moment - nothing may be remembered.
    case = {kind:'sessions', sp: 'abs'|'bare', worlds: [ {name: [includes]} ... ] }: world i is what the directory holds
    when session i starts (files are (re)written / deleted behind the editor's back to get there)."""
    res = core.CaseResult()
    parser = docs.P()
    ed = editor_lib.Editor(parser)
    top = os.path.realpath(tempfile.mkdtemp(prefix=_tmp_prefix(), dir=_tmp_base()))
    old_cwd = os.getcwd()
    try:
        world = os.path.join(top, 'dir')
        os.mkdir(world)
        for n, files in enumerate(case['worlds']):
            # bring the directory to the state `files`
            for name in os.listdir(world):
                if name not in files:
                    os.unlink(os.path.join(world, name))
            for name, incs in files.items():
                with open(os.path.join(world, name), 'wb') as f:
                    f.write(file_bytes(name, 'l', incs, 0, world))
            names = sorted(files)
            expect = set()
            queue = ['main.bean']
            while queue:
                cur = queue.pop()
                if cur in expect:
                    continue
                expect.add(cur)
                for inc in files[cur]:
                    queue.extend(resolve(inc, cur, names))
            root = os.path.join(world, 'main.bean') if case['sp'] == 'abs' else 'main.bean'
            os.chdir(world)
            res.transitions += 1
            try:
                with ed.edit_file_recursive(root) as mapping:
                    got = {os.path.relpath(os.path.realpath(k), world) for k in mapping}
            except Exception as e:  # noqa
                res.fail('C16/later-session-fails[edit_file_recursive]',
                         f'session {n + 1} of {case["worlds"]} ({case["sp"]} spelling) raised {type(e).__name__}: {str(e).replace(top, "<tmp>")}', case)
                return res
            finally:
                os.chdir(old_cwd)
            if got != expect:
                res.fail('C16/later-session-visits-other-files-than-the-includes-match[edit_file_recursive]',
                         f'session {n + 1} of {case["worlds"]} ({case["sp"]} spelling) visited {sorted(got)}, the include directives '
                         f'match {sorted(expect)} on disk', case)
                return res
        h = core.h64(repr(case))
        res.states.add(h)
        res.nontrivial.add(h)
        res.outcomes['sessions-consistent'] += 1
    finally:
        os.chdir(old_cwd)
        shutil.rmtree(top, ignore_errors=True)
    return res


def _run_special(case: dict) -> core.CaseResult:
    """kind 'special': symbolic links (an include reached through a link, the root path being a link) and non-ASCII contents.
    case = {kind:'special', what:'symlink-include'|'symlink-root'|'non-ascii', api:'one'|'rec', eol:'l'|'c'}"""
    import locale
    res = core.CaseResult()
    what, api = case['what'], case['api']
    if what == 'non-ascii' and locale.getpreferredencoding(False).lower().replace('-', '') != 'utf8':
        res.outcomes['skipped: preferred encoding is not UTF-8'] += 1
        return res
    parser = docs.P()
    ed = editor_lib.Editor(parser)
    top = os.path.realpath(tempfile.mkdtemp(prefix=_tmp_prefix(), dir=_tmp_base()))
    old_cwd = os.getcwd()
    e = '\r\n' if case.get('eol') == 'c' else '\n'
    extra = ' \u00e9\u4e16\U0001F600' if what == 'non-ascii' else ''
    try:
        world = os.path.join(top, 'dir')
        os.mkdir(world)

        def content(name: str, incs: list) -> bytes:
            lines = [f'; file {name}{extra}', f'option "title" "t{extra}"'] + [f'include "{i}"' for i in incs] + ['2000-01-01 open Assets:Old']
            return ''.join(x + e for x in lines).encode('utf-8')
        files = {'main.bean': content('main.bean', ['inc/*.bean'] if what == 'symlink-include' else []), }
        os.mkdir(os.path.join(world, 'inc'))
        os.mkdir(os.path.join(world, 'real'))
        with open(os.path.join(world, 'main.bean'), 'wb') as f:
            f.write(files['main.bean'])
        target = os.path.join(world, 'real', 'a.bean')
        with open(target, 'wb') as f:
            f.write(content('a.bean', []))
        root = os.path.join(world, 'main.bean')
        if what == 'symlink-include':
            os.symlink(os.path.join('..', 'real', 'a.bean'), os.path.join(world, 'inc', 'a.bean'))
        elif what == 'symlink-root':
            os.symlink(os.path.join('real', 'a.bean'), os.path.join(world, 'rootlink.bean'))
            root = os.path.join(world, 'rootlink.bean')
        for dp, _, fns in os.walk(world):
            for fn in fns:
                os.utime(os.path.join(dp, fn), ns=(PAST_NS, PAST_NS), follow_symlinks=True)
        before = {p: open(p, 'rb').read() for p in (os.path.join(world, 'main.bean'), target)}
        res.transitions += 1
        try:
            if api == 'one':
                with ed.edit_file(root) as file:
                    _edit(file)
                edited = {os.path.realpath(root)}
            else:
                with ed.edit_file_recursive(root) as mapping:
                    keys = list(mapping)
                    for k in keys:
                        _edit(mapping[k])
                edited = {os.path.realpath(k) for k in keys}
                real = [os.path.realpath(k) for k in keys]
                if len(set(real)) != len(real):
                    res.fail('C16/file-visited-twice-via-two-spellings', f'{what}: keys {keys} name a file twice', case)
                    return res
        except Exception as ex:  # noqa
            res.fail(f'C16/exit-raises[{API_NAME[api]}]', f'{what}: {type(ex).__name__}: {str(ex).replace(top, "<tmp>")}', case)
            return res
        for p, old in before.items():
            now = open(p, 'rb').read()
            want = expected_edit(old) if p in edited else old
            if now != want:
                res.fail(f'C16/edited-file-content-differs[{API_NAME[api]},{what}]',
                         f'{os.path.relpath(p, world)}: {now!r}, expected {want!r}', case)
                return res
        for link in ('inc/a.bean', 'rootlink.bean'):
            lp = os.path.join(world, link)
            if os.path.lexists(lp) and not os.path.islink(lp):
                res.fail(f'C16/symbolic-link-replaced-by-a-file[{API_NAME[api]}]', f'{link} is no longer a symbolic link', case)
                return res
        names = sorted(os.path.relpath(os.path.join(dp, fn), world) for dp, _, fns in os.walk(world) for fn in fns)
        want_names = sorted(['main.bean', 'real/a.bean'] + (['inc/a.bean'] if what == 'symlink-include' else []) +
                            (['rootlink.bean'] if what == 'symlink-root' else []))
        if names != want_names:
            res.fail(f'C16/unexpected-files[{API_NAME[api]},{what}]', f'directory now holds {names}, expected {want_names}', case)
            return res
        h = core.h64(repr(case))
        res.states.add(h)
        res.nontrivial.add(h)
        res.outcomes['special:' + what] += 1
    finally:
        os.chdir(old_cwd)
        shutil.rmtree(top, ignore_errors=True)
    return res


def special_cases() -> list:
    out = []
    for what in ('symlink-include', 'symlink-root', 'non-ascii'):
        for api in ('one', 'rec'):
            if what == 'symlink-include' and api == 'one':
                continue
            for eol in ('l', 'c'):
                out.append({'kind': 'special', 'what': what, 'api': api, 'eol': eol})
    return out


def session_cases() -> list:
    base = {'main.bean': ['*.bean'], 'a.bean': [], 'b.bean': []}
    grown = dict(base, **{'new.bean': []})
    shrunk = {'main.bean': ['*.bean'], 'b.bean': []}
    explicit = {'main.bean': ['a.bean'], 'a.bean': ['b.bean'], 'b.bean': []}
    explicit2 = {'main.bean': ['a.bean'], 'a.bean': [], 'b.bean': []}
    out = []
    for sp in ('abs', 'bare'):
        for seq in ([base, grown], [base, shrunk], [grown, base, grown], [base, base], [explicit, explicit2, explicit],
                    [shrunk, grown, shrunk]):
            out.append({'kind': 'sessions', 'sp': sp, 'worlds': seq})
    return out


def run_case(case: dict) -> core.CaseResult:
    if case.get('kind') == 'errline':
        return _run_errline(case)
    if case.get('kind') == 'sessions':
        return _run_sessions(case)
    if case.get('kind') == 'special':
        return _run_special(case)
    res = core.CaseResult()
    files = expand_world(case['w'])
    api, edit, st, rz = case['api'], case.get('edit', []), case.get('st'), case.get('rz')
    sigs = {}
    for sp, as_path in case['sp']:
        case1 = {'api': api, 'w': {'files': files}, 'sp': [[sp, as_path]], 'edit': edit, 'st': st, 'rz': rz}
        sig = _judge(files, api, sp, bool(as_path), edit, st, rz, res, case1)
        res.states.add(core.h64((files, api, edit, st, rz, sp, as_path)))
        if sig is not None:
            sigs[(sp, as_path)] = sig
    # -- (6) the spelling of the path must not matter
    if len(set(sigs.values())) > 1:
        a, b = sorted(sigs.items(), key=lambda kv: repr(kv))[:2] if len(sigs) == 2 else _two_different(sigs)
        res.fail('C16/outcome-depends-on-path-spelling',
                 f'{API_NAME[api]} on {files}, edit {edit}, {st}, raise {rz}: {a[0]} -> {a[1]}, {b[0]} -> {b[1]}',
                 {'api': api, 'w': {'files': files}, 'sp': [list(a[0]), list(b[0])], 'edit': edit, 'st': st, 'rz': rz})
    _, nomatch = expected_visit(files) if api == 'rec' else ([], [])
    if edit or st or rz or nomatch:
        res.nontrivial.add(core.h64((files, api, edit, st, rz)))
    res.sample = {'api': API_NAME[api], 'files': [(f[0], f[1], f[2]) for f in files], 'spellings': case['sp'],
                  'edit': edit, 'struct': st, 'raise': rz}
    return res


def _two_different(sigs: dict) -> tuple:
    items = sorted(sigs.items(), key=repr)
    for b in items[1:]:
        if b[1] != items[0][1]:
            return items[0], b
    raise AssertionError


# --------------------------------------------------------------------------------------------
# enumeration

SP_ALL = [[s, p] for s in SPELLINGS for p in (False, True)]
SP_STR = [[s, False] for s in SPELLINGS]


def eol_patterns(n: int, mode: str) -> list:
    if mode == 'all':
        return [''.join(t) for t in itertools.product('lc', repeat=n)]
    if mode == 'all+m':
        return [''.join(t) for t in itertools.product('lc', repeat=n)] + ['m' * n]
    out = ['l' * n, 'c' * n]
    if n > 1:
        out.append(('lc' * n)[:n])          # one mixed assignment: main LF, next CRLF, ...
    return out


def bodies(files: list, api: str, level: str) -> list:
    """(edit, st, rz) triples for a world.  level: 'full' | 'pruned' | 'pruned-q' | 'min'."""
    if api == 'one':
        return [([], None, None), (['main.bean'], None, None), (['main.bean'], None, 'before'),
                (['main.bean'], None, 'after'), ([], None, 'after')]
    visited, nomatch = expected_visit(files)
    if nomatch:
        return [([], None, None)]
    subsets = [list(c) for n in range(len(visited) + 1) for c in itertools.combinations(visited, n)]
    structs: list = [['del', v] for v in visited] + [['add', 'new.bean', 'l'], ['add', 'newsub/n.bean', 'l'], ['add', 'empty.bean', 'e']] + \
        [['respell', v] for v in (visited if level == 'full' else visited[-1:])]
    if level == 'full':
        structs += [['add', 'new.bean', 'c']]
    out: list = []
    if level == 'min':
        out += [([], None, None), (visited, None, None), (visited, ['del', visited[-1]], None),
                (visited, ['add', 'newsub/n.bean', 'l'], None)]
        return out
    out += [(s, None, None) for s in subsets]
    both = subsets if level == 'full' else [s for s in subsets if len(s) in (0, len(visited))]
    out += [(s, st, None) for st in structs for s in both]
    # raising bodies: nothing may be touched whatever was done to the models before / in between / after
    if level == 'full':
        rbodies = [(s, st) for st in [None] + structs for s in subsets if len(s) in (0, len(visited))]
    elif level == 'pruned':
        rbodies = [(visited, None), (visited, ['del', visited[-1]]), (visited, ['add', 'newsub/n.bean', 'l'])]
    else:
        rbodies = [(visited, ['del', visited[-1]])]
        out.append((visited, ['add', 'newsub/n.bean', 'l'], 'after'))
    for s, st in rbodies:
        nsteps = len(s) + (1 if st else 0)
        for rz in ('before', 'between', 'after'):
            if rz == 'between' and nsteps < 2:
                continue
            if rz == 'before' and nsteps == 0:
                continue
            out.append((s, st, rz))
    return out


VARIANTS: list = [
    # globs
    ('glob-star', [['main.bean', ['*.bean']], ['a.bean', []], ['b.bean', ['a.bean']]]),
    # hidden files and directories are not matched by wildcards (and so not visited, not rewritten)
    ('glob-hidden', [['main.bean', ['*.bean', 'sub/**/*.bean']], ['a.bean', []], ['.hidden.bean', []], ['sub/c.bean', []],
                     ['sub/.trash/old.bean', []]]),
    ('glob-starstar', [['main.bean', ['sub/**/*.bean']], ['a.bean', []], ['sub/c.bean', []],
                       ['sub/deep/d.bean', ['../c.bean']]]),
    ('glob+explicit', [['main.bean', ['a.bean', '*.bean']], ['a.bean', ['./a.bean']]]),
    ('glob-from-subdir', [['main.bean', ['sub/c.bean']], ['a.bean', []], ['sub/c.bean', ['../*.bean']]]),
    # through a sub-directory, with '..' segments, cycle
    ('subdir', [['main.bean', ['sub/c.bean', 'a.bean']], ['a.bean', ['sub/../main.bean']],
                ['sub/c.bean', ['../a.bean', 'c.bean']]]),
    # absolute include paths
    ('abs-only', [['main.bean', ['{ABS}/a.bean']], ['a.bean', []]]),
    ('abs+rel', [['main.bean', ['a.bean', '{ABS}/a.bean']], ['a.bean', []]]),
    ('abs-then-rel', [['main.bean', ['{ABS}/a.bean', 'b.bean']], ['a.bean', ['b.bean']], ['b.bean', ['a.bean']]]),
    ('abs-self', [['main.bean', ['{ABS}/main.bean']]]),
    ('abs-glob', [['main.bean', ['{ABS}/*.bean']], ['a.bean', []]]),
    # includes matching nothing
    ('nomatch-main', [['main.bean', ['zzz.bean']]]),
    ('nomatch-second', [['main.bean', ['a.bean', 'zzz.bean']], ['a.bean', []]]),
    ('nomatch-glob-in-included', [['main.bean', ['a.bean']], ['a.bean', ['zzz*.bean']]]),
    ('nomatch-unreachable', [['main.bean', ['a.bean']], ['a.bean', []], ['b.bean', ['zzz.bean']]]),
    ('nomatch-relative-to-subdir', [['main.bean', ['sub/c.bean']], ['a.bean', []], ['sub/c.bean', ['a.bean']]]),
]


def variant_worlds(eol_mode: str) -> list:
    out = []
    for name, fl in VARIANTS:
        pads = (0, 2, 4) if name.startswith('nomatch') else (0,)
        for eols in eol_patterns(len(fl), eol_mode):
            for pad in pads:
                out.append({'files': [[f[0], eols[i], f[1], pad] for i, f in enumerate(fl)]})
    return out


def build_cases(tier: str) -> tuple:
    thorough = tier == 'thorough'
    items: list = []
    bounds: dict = {}
    pruned: list = []

    def add(w: Any, api: str, sps: list, level: str, raise_sps: Optional[list] = None) -> None:
        files = expand_world(w)
        for edit, st, rz in bodies(files, api, level):
            items.append({'api': api, 'w': w, 'sp': (raise_sps or sps) if rz else sps, 'edit': edit, 'st': st, 'rz': rz})

    # k = 1, 2: the full product
    for k in (1, 2):
        for mask in range(2 ** (k * k)):
            for eols in eol_patterns(k, 'all+m' if thorough else 'all'):
                w = ['g', k, mask, eols]
                add(w, 'rec', SP_ALL, 'full')
                add(w, 'one', SP_ALL, 'full')
    bounds['k=1,2'] = ('all 2^(k*k) include edge sets x every LF/CRLF assignment' + (' + mixed-inside-file' if thorough else '') +
                       ' x 5 spellings x str/Path x both APIs x every (edit subset x structural action) x every raise point')
    # k = 3
    for mask in range(512):
        for eols in eol_patterns(3, 'all' if thorough else 'quick'):
            w = ['g', 3, mask, eols]
            if thorough:
                add(w, 'rec', SP_ALL if eols in ('lll', 'ccc') else SP_STR, 'full' if eols in ('lll', 'ccc', 'lcl') else 'pruned',
                    raise_sps=[['abs', False], ['bare', False], ['rel', True]])
            else:
                add(w, 'rec', SP_STR if eols == 'lll' else [['abs', False], ['bare', True]], 'pruned-q')
        for eols in ('lll', 'ccc'):
            add(['g', 3, mask, eols], 'one', SP_STR if thorough else [['abs', False], ['bare', True]], 'full')
    if thorough:
        bounds['k=3'] = ('all 512 edge sets x all 8 LF/CRLF assignments; str/Path x 5 spellings for all-LF and all-CRLF, 5 str '
                         'spellings otherwise; full body product for lll/ccc/lcl, pruned bodies for the other 5 assignments')
        pruned.append('k=3 thorough: Path spellings only with all-LF/all-CRLF contents; the 5 other mixed LF/CRLF assignments '
                      'use pruned bodies (structural action and raise points only with none/all files edited); raising bodies '
                      'run with 3 spellings (abs str, bare str, dir/x Path) instead of all')
    else:
        bounds['k=3'] = ('all 512 edge sets x {all-LF, all-CRLF, one mixed}; all-LF with 5 str spellings, CRLF/mixed with '
                         '{abs str, bare Path}; bodies: every edit subset; structural action x {no, all} files edited; raise '
                         'before/between/after on (all edited + delete last), raise after on (all edited + add in new sub-directory)')
        pruned.append('k=3 quick: Path form and the spellings dir/x, ./x, dir/../dir/x are not crossed with CRLF contents; structural actions '
                      'and raise points are crossed only with none/all visited files edited (full product is in the k<=2 block '
                      'and in the thorough tier)')
    # variants
    for w in variant_worlds('all+m' if thorough else 'quick'):
        add(w, 'rec', SP_ALL, 'full' if thorough else 'pruned')
    bounds['variants'] = [v[0] for v in VARIANTS]
    # k = 4 (thorough): loop-free edge sets over main, a, b, sub/c
    if thorough:
        n = 0
        for mask in range(2 ** 16):
            if any(mask >> (i * 4 + i) & 1 for i in range(4)):
                continue
            n += 1
            add(['g', 4, mask, 'llll'], 'rec', [['rel', False], ['bare', False]], 'min')
            add(['g', 4, mask, 'clcl'], 'rec', [['abs', True]], 'min')
        bounds['k=4'] = (f'{n} edge sets without self-loops over main, a, b, sub/c x (all-LF with spellings dir/x and bare x; '
                         'CRLF/LF alternating with absolute Path) x 4 bodies (none, all edited, all edited + delete last, all '
                         'edited + add in new sub-directory)')
        pruned.append('k=4: self-loops left out (covered for k<=3), 2 content assignments, 3 spellings, 4 bodies, no raise points')
    else:
        pruned.append('k=4 only in the thorough tier')
    nomatch_worlds = [w for w in variant_worlds('quick') if expected_visit(expand_world(w))[1]]
    items.append({'kind': 'errline', 'worlds': nomatch_worlds, 'sp': SPELLINGS})
    items.extend(session_cases())
    items.extend(special_cases())
    bounds['special'] = 'symbolic link as include target / as root path; non-ASCII contents (UTF-8 locales only); both APIs; LF and CRLF'
    bounds['sessions'] = 'sequences of 2-3 recursive sessions in one process over a directory that grows / shrinks / changes its includes in between, absolute and bare root spelling'
    return items, bounds, pruned


def main(run: core.Run) -> None:
    docs.P()        # one parser per process: built here, inherited by the forked workers
    items, bounds, pruned = build_cases(run.tier)
    run.rule = ('product enumeration of directory worlds (include edge sets over k files + glob / sub-directory / absolute / '
                'unmatched include variants) x LF/CRLF per file x root path spelling x API x body (subset of visited files '
                'edited, one structural action, raise point); each (case, spelling) is executed by the real Editor in a fresh '
                'temporary directory and compared with a byte/mtime/inode dictionary model; non-trivial = distinct (world, API, '
                'body) where something must be written, deleted, created or left alone despite pending changes')
    run.bounds.update(bounds)
    run.bounds['pruned'] = pruned
    run.assumptions = [
        'ASCII file contents (the encoding used by the editor is not part of the property)',
        'no symbolic links inside the world; file identity is os.path.realpath under a realpath-ed temporary directory',
        'an added entry is keyed by os.path.join(os.path.dirname(<key of the root file>), <new relative name>)',
        'one edit per file: the account lexeme of the last directive is replaced (expected bytes = original bytes with that '
        'byte range replaced)',
        'an include that matches nothing inside a visited file is expected to fail on entry; the exception type is recorded, '
        'not judged; only "nothing touched" and the line-number constant are judged',
        'directories left empty by a deletion are expected to stay',
    ]
    run.log(f'{len(items)} cases, {sum(len(c.get("sp", [])) for c in items)} executions planned')
    _OWNER[0] = os.getpid()
    try:
        run.run_cases(run_case, items, 'worlds', chunk=max(20, min(400, len(items) // 400)))
    finally:        # directories of workers that were killed in mid-case (each execution removes its own in a finally block)
        import glob
        for d in glob.glob(os.path.join(_tmp_base() or tempfile.gettempdir(), _tmp_prefix() + '*')):
            shutil.rmtree(d, ignore_errors=True)
    run.extra['temporary_directories_under'] = _tmp_base() or tempfile.gettempdir()
    cs = sorted(int(k.split('=')[1]) for k in run.total.counters if k.startswith('include-error-line-c='))
    run.extra['include_error_line_c'] = cs[0] if len(cs) == 1 else cs
    run.extra['include_error_line_minus_0based_line_index'] = sorted(
        int(k.split('=')[1]) for k in run.total.counters if k.startswith('include-error-line-minus-0based-index='))
    run.extra['include_error_messages_checked'] = sum(
        v for k, v in run.total.counters.items() if k.startswith('include-error-line-c='))
    if len(cs) > 1 and ERRLINE_KEY not in run.total.violations:
        raise AssertionError(f'inconsistent include-error line constant {cs} not pinned down by the errline case')
