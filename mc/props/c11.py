"""C11 - a deep copy is equal, exact and fully independent."""
from __future__ import annotations

import copy
from typing import Any

from autobean_refactor import models as M
from autobean_refactor.models.internal import repeated as R

from .. import claims, core, docexp, docs, ops, tree
from .c05 import op_sig

PROPERTY = 'C11'


def check_copy(orig: Any, cp: Any, res: core.CaseResult, where: str, cls: str) -> bool:
    res.transitions += 1
    try:
        if not (cp == orig) or not (orig == cp):
            res.fail(f'C11/copy-not-equal[{cls}]', where + f'copy {tree.pr(cp)!r} compares unequal to the original {tree.pr(orig)!r}')
            return False
    except Exception as e:  # noqa
        res.fail(f'C11/compare-raises[{cls}]', where + f'{type(e).__name__}: {e}')
        return False
    if tree.pr(cp) != tree.pr(orig):
        res.fail(f'C11/copy-prints-differently[{cls}]', where + f'copy prints {tree.pr(cp)!r}, original spans {tree.pr(orig)!r}')
        return False
    if isinstance(orig, M.RawTokenModel):
        if cp is orig:
            res.fail(f'C11/copy-shares-token[{cls}]', where + 'deepcopy returned the same token object')
            return False
        if getattr(cp, 'claimed', None) != getattr(orig, 'claimed', None) or getattr(cp, 'value', None) != getattr(orig, 'value', None) \
                or getattr(cp, 'indent', None) != getattr(orig, 'indent', None):
            res.fail(f'C11/token-copy-loses-field[{cls}]', where + 'claimed / value / indent differ on the copy')
            return False
        return True
    st = cp.token_store
    if st is None or st is orig.token_store:
        res.fail(f'C11/copy-not-in-own-store[{cls}]', where + 'the copy has no store of its own')
        return False
    oids = {id(t) for t in orig.token_store}
    if any(id(t) in oids for t in st):
        res.fail(f'C11/copy-shares-token[{cls}]', where + 'the copy shares a token object with the original document')
        return False
    if cp.first_token is not st.get_first() or cp.last_token is not st.get_last():
        res.fail(f'C11/copy-not-whole-store[{cls}]', where + f'copy {tree.pr(cp)!r} does not span its store {tree.store_text(st)!r}')
        return False
    errs = tree.check_tree(cp)
    if errs:
        res.fail(f'C11/copy-tree-{errs[0][0]}[{cls}]', where + errs[0][1])
        return False
    fo = [getattr(t, 'claimed', None) for t in orig.tokens]
    fc = [getattr(t, 'claimed', None) for t in cp.tokens]
    if fo != fc:
        res.fail(f'C11/copy-claimed-flags-differ[{cls}]', where + f'claimed flags {fo} vs {fc}')
        return False
    if tree.signature(cp) != tree.signature(orig):
        res.fail(f'C11/copy-structure-differs[{cls}]', where + 'tree signature of the copy differs (ownership / slots / data fields)')
        return False
    return True


def run_doc(case: dict) -> core.CaseResult:
    """copies of every model and token at every depth + edits of the copy / of the original"""
    res = core.CaseResult()
    text, mode = case['text'], case.get('mode', True)
    root = docs.try_parse(text, M.File, mode)
    if root is None:
        res.outcomes['rejected'] += 1
        return res
    for op in case.get('pre', []):        # claim / unclaim calls that move placeholders first
        claims.apply_claim(root, op)
    where0 = f'{text!r} (auto_claim_comments={mode}, after {case.get("pre", [])}): '
    doc_snap = tree.snapshot(root)
    models = [(p, m) for p, m in tree.walk(root) if not isinstance(m, R.Repeated)]
    for path, m in models:
        cls = type(m).__name__
        try:
            cp = copy.deepcopy(m)
        except Exception as e:  # noqa
            res.fail(f'C11/deepcopy-raises[{cls}]', where0 + f'deepcopy of {"/".join(path)} raises {type(e).__name__}: {e}')
            return res
        if not check_copy(m, cp, res, where0 + f'{"/".join(path) or "root"}: ', cls):
            return res
        h = core.h64((cls, tree.pr(cp), mode))
        res.states.add(h)
        res.nontrivial.add(h)
    # one deepcopy call that reaches a model and one of its own parts (copy of a tuple / list / dict of models)
    for path, m in models:
        if isinstance(m, M.RawTokenModel):
            continue
        kids = [c for _, c in tree.children(m) if not isinstance(c, R.Repeated)][:3]
        for c in kids:
            for shape in ('tuple', 'dict'):
                res.transitions += 1
                try:
                    if shape == 'tuple':
                        a, b = copy.deepcopy((m, c))
                    else:
                        d = copy.deepcopy({'part': c, 'whole': m})
                        a, b = d['whole'], d['part']
                except Exception as e:  # noqa
                    res.fail(f'C11/deepcopy-of-model-with-its-part-raises[{type(m).__name__}]',
                             where0 + f'copy.deepcopy of a {shape} holding {"/".join(path) or "root"} and its child {type(c).__name__} raises '
                             f'{type(e).__name__}: {e}')
                    return res
                if not check_copy(m, a, res, where0 + f'{shape} copy, whole {"/".join(path) or "root"}: ', type(m).__name__) or \
                        not check_copy(c, b, res, where0 + f'{shape} copy, part of {"/".join(path) or "root"}: ', type(c).__name__):
                    return res
    if tree.snapshot(root) != doc_snap:
        res.fail('C11/copying-changed-the-original', where0 + 'the document snapshot changed while copying')
        return res
    # data fields (indent_by) are part of a model: give each a non-default value, then copy the model and its ancestors
    for path, m in models:
        if isinstance(m, M.RawTokenModel):
            continue
        for name in tree.data_fields(type(m)):
            old_v = getattr(m, name)
            setattr(m, name, '\t' if old_v != '\t' else '  ')
            for k in range(len(path) + 1):
                anc = tree.resolve(root, path[:k])
                if anc is None or isinstance(anc, R.Repeated):
                    continue
                cp = copy.deepcopy(anc)
                if not check_copy(anc, cp, res, where0 + f'{"/".join(path[:k]) or "root"} after {"/".join(path)}.{name} = non-default: ',
                                  type(anc).__name__):
                    return res
            setattr(m, name, old_v)
    if not case.get('edits'):
        res.sample = {'text': text, 'mode': mode, 'copies': len(models)}
        return res
    # independence, copy side: every op of the alphabet on a fresh copy of each tree model
    level = case.get('level', 'basic')
    for path, m in models:
        if isinstance(m, M.RawTokenModel) and case.get('edits') != 'all':
            continue
        cls = type(m).__name__
        probe = copy.deepcopy(m)
        oplist = ops.enum_ops(probe, level, {'tokraw', 'tokval', 'setnode', 'setval', 'seq', 'map', 'spacing', 'numop'})
        for op in oplist:
            cp = copy.deepcopy(m)
            ap = ops.apply(cp, op)
            res.transitions += 1
            if ap.result == 'unresolved':
                continue
            if tree.snapshot(root) != doc_snap:
                res.fail(f'C11/edit-of-copy-changed-original[{cls}:{op_sig(op)}]',
                         where0 + f'copy of {"/".join(path) or "root"} edited with {op}: the original document changed to {tree.pr(root)!r}',
                         {'text': text, 'mode': mode, 'pre': case.get('pre', []), 'path': list(path), 'op': op, 'side': 'copy'})
                return res
            res.outcomes['copy-edit:' + ('raised' if ap.exc else 'ok')] += 1
    # independence, original side: every op on the document; copies of target / parent / root must not change
    for op in ops.enum_ops(root, level, {'tokraw', 'tokval', 'setnode', 'setval', 'seq', 'map', 'spacing', 'numop'}):
        r2 = docs.try_parse(text, M.File, mode)
        for pre in case.get('pre', []):
            claims.apply_claim(r2, pre)
        tgt = tree.resolve(r2, tuple(op[1]))
        if tgt is None:
            continue
        subjects = [r2, tgt]
        if len(op[1]) >= 2:
            par = tree.resolve(r2, tuple(op[1][:-2])) if op[1][-2].startswith('_') is False else tree.resolve(r2, tuple(op[1][:-1]))
            if par is not None and not isinstance(par, R.Repeated):
                subjects.append(par)
        copies = [(s, copy.deepcopy(s)) for s in subjects if not isinstance(s, R.Repeated)]
        snaps = [tree.snapshot(c) if not isinstance(c, M.RawTokenModel) else (c.raw_text, getattr(c, 'value', None)) for _, c in copies]
        ap = ops.apply(r2, op)
        res.transitions += 1
        for (s, c), sn in zip(copies, snaps):
            now = tree.snapshot(c) if not isinstance(c, M.RawTokenModel) else (c.raw_text, getattr(c, 'value', None))
            if now != sn:
                res.fail(f'C11/edit-of-original-changed-copy[{type(s).__name__}:{op_sig(op)}]',
                         where0 + f'original edited with {op}: an earlier copy of {type(s).__name__} changed to {tree.pr(c)!r}',
                         {'text': text, 'mode': mode, 'pre': case.get('pre', []), 'op': op, 'side': 'original'})
                return res
        res.outcomes['orig-edit:' + ('raised' if ap.exc else 'ok')] += 1
    res.sample = {'text': text, 'mode': mode, 'copies': len(models), 'edits': res.transitions}
    return res


WRAPPER_DESCS = None


def views_of(m: Any) -> list[str]:
    from autobean_refactor.models import meta_item_internal as MI
    from autobean_refactor.models.internal import interleaving_comments as IC, properties as PR, value_properties as VP
    out = []
    for attr, d in ops.descriptors(type(m)).items():
        if isinstance(d, (PR.repeated_node_property, IC.repeated_node_with_interleaving_comments_property, VP.repeated_filtered_node_property,
                          VP.repeated_string_property, MI.repeated_raw_meta_item_property, MI.repeated_meta_item_property)) or \
                (isinstance(d, PR.cached_custom_property) and attr == 'values'):
            out.append(attr)
    return out


def view_state(m: Any, attrs: list[str]) -> list:
    out = []
    for a in attrs:
        try:
            out.append((a, [tree.pr(x) if isinstance(x, M.RawModel) else repr(x) for x in getattr(m, a)]))
        except Exception as e:  # noqa
            out.append((a, f'raises {type(e).__name__}: {e}'))
    return out


def run_wrapper_copies(case: dict) -> core.CaseResult:
    """copy.deepcopy of every list wrapper / view of every model (all views alive first); then one insertion, one deletion
    through the copy and through the original: the other side's document and views must not change"""
    res = core.CaseResult()
    text, mode = case['text'], case.get('mode', True)
    probe = docs.try_parse(text, M.File, mode)
    if probe is None:
        res.outcomes['rejected'] += 1
        return res
    for path, m0 in tree.walk(probe):
        if isinstance(m0, (M.RawTokenModel, R.Repeated)):
            continue
        attrs = views_of(m0)
        for attr in attrs:
            for side in ('copy', 'original'):
                for action in ('append', 'del0', 'insert0'):
                    root = docs.try_parse(text, M.File, mode)
                    m = tree.resolve(root, path)
                    for a in attrs:
                        len(getattr(m, a))            # every view alive
                    w = getattr(m, attr)
                    where = f'{text!r}: deepcopy({"/".join(path) or "root"}.{attr}), then {action} through the {side}: '
                    sub = {'kind': 'wrapper-copy', 'text': text, 'mode': mode}
                    try:
                        cp = copy.deepcopy(w)
                    except Exception as e:  # noqa
                        res.fail(f'C11/deepcopy-of-view-raises[{attr}]', where + f'{type(e).__name__}: {e}', sub)
                        return res
                    res.transitions += 1
                    try:
                        same = list(cp) == list(w) and len(cp) == len(w)
                    except Exception as e:  # noqa
                        res.fail(f'C11/copied-view-unreadable[{attr}]', where + f'{type(e).__name__}: {e}', sub)
                        return res
                    if not same:
                        res.fail(f'C11/copied-view-differs[{attr}]', where + 'the copy lists other elements than the original', sub)
                        return res
                    doc0, views0 = tree.pr(root), view_state(m, attrs)
                    cp0 = [tree.pr(x) if isinstance(x, M.RawModel) else repr(x) for x in cp]
                    target, other_is_copy = (cp, False) if side == 'copy' else (w, True)
                    try:
                        if action == 'del0':
                            if len(target):
                                del target[0]
                        else:
                            elems = list(target)
                            if not elems:
                                continue
                            new = copy.deepcopy(elems[-1]) if isinstance(elems[-1], M.RawModel) else elems[-1]
                            if action == 'append':
                                target.append(new)
                            else:
                                target.insert(0, new)
                    except Exception:  # noqa: refusals are C19's business
                        continue
                    res.transitions += 1
                    if not other_is_copy:
                        if tree.pr(root) != doc0 or view_state(m, attrs) != views0:
                            res.fail(f'C11/edit-of-copied-view-changed-original[{attr}]',
                                     where + f'the original document / its views changed: {view_state(m, attrs)} (was {views0})', sub)
                            return res
                    else:
                        try:
                            cp1 = [tree.pr(x) if isinstance(x, M.RawModel) else repr(x) for x in cp]
                        except Exception as e:  # noqa
                            cp1 = f'raises {type(e).__name__}: {e}'
                        if cp1 != cp0:
                            res.fail(f'C11/edit-of-original-changed-copied-view[{attr}]', where + f'the copy now lists {cp1} (was {cp0})', sub)
                            return res
                        # the original's own views must follow its own edit
                        vs = view_state(m, attrs)
                        if any(isinstance(x, str) for _, x in vs):
                            res.fail(f'C11/original-views-broken-after-copy[{attr}]', where + f'views of the original: {vs}', sub)
                            return res
    h = core.h64(('wrapper-copies', text, mode))
    res.states.add(h)
    res.nontrivial.add(h)
    return res


def run_single(case: dict) -> core.CaseResult:
    """replay of one independence violation"""
    res = core.CaseResult()
    text, mode = case['text'], case.get('mode', True)
    root = docs.try_parse(text, M.File, mode)
    for pre in case.get('pre', []):
        claims.apply_claim(root, pre)
    if case['side'] == 'copy':
        m = tree.resolve(root, tuple(case['path']))
        snap = tree.snapshot(root)
        cp = copy.deepcopy(m)
        ops.apply(cp, case['op'])
        res.transitions += 1
        if tree.snapshot(root) != snap:
            res.fail(f'C11/edit-of-copy-changed-original[{type(m).__name__}:{op_sig(case["op"])}]', f'{text!r}: original changed to {tree.pr(root)!r}')
    else:
        cp = copy.deepcopy(root)
        snap = tree.snapshot(cp)
        tgt = tree.resolve(root, tuple(case['op'][1]))
        c2 = copy.deepcopy(tgt) if tgt is not None else None
        s2 = tree.snapshot(c2) if c2 is not None and not isinstance(c2, M.RawTokenModel) else None
        ops.apply(root, case['op'])
        res.transitions += 1
        if tree.snapshot(cp) != snap:
            res.fail(f'C11/edit-of-original-changed-copy[File:{op_sig(case["op"])}]', f'{text!r}: the copy changed to {tree.pr(cp)!r}')
        elif s2 is not None and tree.snapshot(c2) != s2:
            res.fail(f'C11/edit-of-original-changed-copy[{type(tgt).__name__}:{op_sig(case["op"])}]', f'{text!r}: the copy changed to {tree.pr(c2)!r}')
    return res


def run_case(case: dict) -> core.CaseResult:
    if case.get('kind') == 'wrapper-copy':
        return run_wrapper_copies(case)
    if 'side' in case:
        return run_single(case)
    return run_doc(case)


def main(run: core.Run) -> None:
    tier = run.tier
    run.rule = ('deepcopy of every model and token at every depth of every corpus document (both attribution modes, and after each single '
                'claim/unclaim call that moves placeholders); then every op of the edit alphabet on a fresh copy (original snapshot must '
                'not change) and every op on the original (earlier copies of root / target / parent must not change); non-trivial = '
                'distinct (class, copied text, mode)')
    variants = (('lf', True), ('crlf', False))
    if tier == 'quick':
        copies = [{'text': t, 'mode': m} for t in docs.texts(docs.L_FULL, 2, variants=variants) for m in (True, False)]
        edits = [dict(c, edits='models') for c in docexp.corpus(docs.L_EDIT, 2, depth=1)]
        claim_n = 2
    else:
        copies = [{'text': t, 'mode': m} for t in docs.texts(docs.L_FULL, 3, variants=variants) for m in (True, False)]
        edits = [dict(c, edits='all', level='full') for c in docexp.corpus(docs.L_EDIT, 2, depth=1, modes=(True, False))]
        edits += [dict(c, edits='models') for c in docexp.corpus(docs.L_EDIT, 3, nmin=3, depth=1)]
        claim_n = 3
    after_claims = []
    for t in docs.texts(docs.L_COMMENT, claim_n, nmin=1):
        for mode in (True, False):
            root = docs.try_parse(t, M.File, mode)
            if root is None or not any(isinstance(x, M.BlockComment) for x in root.token_store):
                continue
            for op in claims.claim_ops(root):
                if op[0] != 'claimseq1':
                    after_claims.append({'text': t, 'mode': mode, 'pre': [op]})
    copies += [{'text': c['text'], 'mode': m} for c in docexp.class_cases(1) for m in (True, False)]
    edits += [dict(c, edits='models') for c in docexp.class_cases(1)]
    run.run_cases(run_case, copies, 'copies of every model', chunk=100)
    run.run_cases(run_case, after_claims, 'copies after one claim/unclaim call', chunk=100)
    run.run_cases(run_case, edits, 'independence under edits', chunk=1)
    wc = [{'kind': 'wrapper-copy', 'text': c['text'], 'mode': c['mode']} for c in docexp.corpus(docs.L_EDIT, 2, depth=1)]
    wc += [{'kind': 'wrapper-copy', 'text': c['text'], 'mode': True} for c in docexp.class_cases(1)[::2]]
    run.run_cases(run_case, wc, 'deep copies of list wrappers and views', chunk=2)
    run.bounds.update({'copy_docs': len(copies), 'after_claim_cases': len(after_claims), 'edit_docs': len(edits)})
    run.assumptions = ['independence is judged on full snapshots (text, token identities, tree signature, view tables)']
