"""C14 - every block comment has at most one owner, chosen by the documented rules."""
from __future__ import annotations

from typing import Any

from autobean_refactor import models as M
from autobean_refactor.models.internal import repeated as R

from .. import claims, core, docs, tree

PROPERTY = 'C14'
CLAUSES = {'owner'}


def owner_desc(o: tuple) -> str:
    return ' '.join(str(x) for x in o)


def run_doc(case: dict) -> core.CaseResult:
    """one text: default parse invariants, reference attribution, parse-time == later, idempotence, unclaim;claim"""
    res = core.CaseResult()
    text = case['text']
    root = docs.try_parse(text, M.File, True)
    if root is None:
        res.outcomes['rejected'] += 1
        return res
    ncomments = sum(1 for t in root.token_store if isinstance(t, M.BlockComment))
    if not ncomments:
        res.outcomes['no-comment'] += 1
        return res
    res.outcomes['accepted-with-comments'] += 1
    where = f'{text!r}: '
    res.transitions += 1
    if not claims.check_ownership(root, res, where + 'after default parse: ', all_owned=True):
        return res
    impl = claims.attribution(root)
    res.states.add(core.h64(('attr', text)))
    res.nontrivial.add(core.h64(sorted(impl.items())) ^ core.h64(text))
    res.sample = {'text': text, 'attribution': [(k, v[0]) for k, v in sorted(impl.items())]}
    # reference (computed on the unclaimed parse, no claim function involved)
    raw = docs.try_parse(text, M.File, False)
    if raw is None:
        res.fail('C14/accepted-only-with-attribution', where + 'parses with auto_claim_comments=True but not False')
        return res
    ref = claims.reference_attribution(raw)
    for off, verdict in sorted(ref.items()):
        got = impl.get(off)
        if got is None:
            res.fail('C14/comment-missing', where + f'comment at offset {off} missing after default parse')
            return res
        desc = got[0]
        res.transitions += 1
        if verdict[0] == 'item':
            ok = desc == (('item',),)
        else:
            ok = desc == (verdict,)
        res.outcomes['rule:' + verdict[0]] += 1
        if not ok:
            feature = ''
            if verdict[0] == 'trailing' and verdict[1] == 'MetaItem' and desc == (('item',),):
                # structural discriminator of known finding F12
                for _, mm in tree.walk(raw):
                    if isinstance(mm, M.Transaction) and not any(isinstance(x, M.Posting) for x in mm.raw_postings_with_comments) \
                            and len(mm.raw_meta) and mm.raw_meta[-1].first_token is not None:
                        st, en, _ = claims.offsets(raw.token_store)
                        sp = claims.core_span(mm.raw_meta[-1], st, en)
                        if sp and sp[0] == verdict[2]:
                            feature = ',last-meta-item-of-transaction-without-postings'
            key = (f'C14/attribution-differs-from-documented-rules[expected-{verdict[0]}{"-of-" + verdict[1] if len(verdict) > 1 else ""},'
                   f'got-{desc[0][0] if desc else "unowned"}{feature}]')
            res.fail(key, where + f'comment at offset {off} {text[off:off + 12]!r}: documented rules give {verdict}, implementation {desc}')
            return res
    # parse-time == later
    raw.auto_claim_comments()
    later = claims.attribution(raw)
    res.transitions += 1
    if later != impl:
        res.fail('C14/parse-time-attribution-differs-from-later', where + f'parse: {sorted(impl.items())} later: {sorted(later.items())}')
        return res
    if tree.pr(raw) != text:
        res.fail('C04/text-changed-by-attribution-call[auto_claim_comments]', where + f'printed {tree.pr(raw)!r}')
        return res
    # idempotence
    root.auto_claim_comments()
    res.transitions += 1
    again = claims.attribution(root)
    if again != impl:
        res.fail('C14/auto-claim-not-idempotent', where + f'first: {sorted(impl.items())} second: {sorted(again.items())}')
        return res
    # unclaim followed by the matching claim restores the attribution
    sig0 = claims.claim_state_key(root)
    for path, m in list(tree.walk(root)):
        if isinstance(m, M.RawTokenModel):
            continue
        if isinstance(m, R.Repeated):
            continue
        d = m.__dict__
        for slot, un, cl in (('_leading_comment', 'unclaim_leading_comment', 'claim_leading_comment'),
                             ('_trailing_comment', 'unclaim_trailing_comment', 'claim_trailing_comment')):
            if isinstance(d.get(slot), M.BlockComment):
                c = getattr(m, un)()
                c2 = getattr(m, cl)()
                res.transitions += 2
                if c2 is not c or claims.attribution(root) != impl:
                    res.fail(f'C14/unclaim-then-claim-does-not-restore[{cl}]', where + f'{"/".join(path)}: after {un}; {cl} attribution is '
                             f'{sorted(claims.attribution(root).items())}')
                    return res
        for attr in list(d):
            w = d.get(attr)
            if hasattr(w, 'unclaim_interleaving_comments'):
                for it in list(w):
                    if isinstance(it, M.BlockComment):
                        w.unclaim_interleaving_comments([it])
                        w.claim_interleaving_comments([it])
                        res.transitions += 2
                        if claims.attribution(root) != impl:
                            res.fail('C14/unclaim-then-claim-does-not-restore[claim_interleaving_comments]',
                                     where + f'{"/".join(path)}.{attr}: attribution now {sorted(claims.attribution(root).items())}')
                            return res
    # wrappers must exist to unclaim items: touch them and repeat for repeated fields reached through properties
    return res


def run_case(case: dict) -> core.CaseResult:
    if 'ops' in case:
        r, _ = claims.run_claim_trace(case, CLAUSES)
        return r
    return run_doc(case)


def main(run: core.Run) -> None:
    tier = run.tier
    n = 4 if tier == 'quick' else 5
    nb = 3 if tier == 'quick' else 4
    variants = (('lf', True), ('lf', False))
    items = [{'text': t} for t in docs.texts(docs.L_COMMENT, n, nmin=1, variants=variants)]
    run.rule = ('all comment layouts <= n lines over the 10-kind comment-centred line alphabet, with and without final newline; per '
                'text: ownership invariant, token-level reference attribution R1-R3, parse-time == later, idempotence, unclaim;claim; '
                'plus a per-document fixpoint BFS over all claim / unclaim / auto-claim calls (also with named single comments) with the '
                'ownership invariant in every state; non-trivial = distinct (text, attribution) pairs / distinct attribution states')
    run.bounds.update({'max_lines_layouts': n, 'max_lines_call_bfs': nb, 'line_alphabet': docs.L_COMMENT})
    run.assumptions = ['reference rules R1-R3 read "same indentation" as same indentation class (column 0 vs indented)',
                       'which repeated field hosts a standalone comment is not compared']
    run.run_cases(run_case, items, 'layouts', chunk=300)
    bfs_cases = claims.bfs_corpus(nb, with_txn4=(tier == 'quick'))
    claims.claims_bfs(run, bfs_cases, CLAUSES, 'claim-call BFS')
