"""C17 - spacing accessors read and write exactly the whitespace between neighbours (E-DOC x models x sides x strings).

Reference (token level, independent of spacing_accessors._find_spacing): on the plain token list of the document,
from the token next to the model's boundary token step over zero-width tokens (raw_text == ''), then take the
maximal run of non-empty Whitespace/Newline tokens; the run ends at the first other token, a zero-width one
included. Indentation (Indent tokens, the indent inside a BlockComment lexeme) is not spacing.
"""
from __future__ import annotations

import itertools
from typing import Any, Optional

from autobean_refactor import models as M
from autobean_refactor.models.internal import repeated as R
from autobean_refactor.models.internal.spacing_accessors import SpacingAccessorsMixin

from .. import core, docs, tree

PROPERTY = 'C17'

# 12 line kinds chosen for spacing variety
LINES = [
    '2000-01-01 *  "p" "n"  #t',                  # header, payee/narration/tag, DOUBLE blanks between some fields
    '2000-01-01 open Assets:Foo USD  ',           # TRAILING blanks before the line end
    '  Assets:Foo  1 USD {2 EUR} @ 3 GBP',        # posting with amount / cost / price
    '  Assets:Baz -1 USD\t; ic',                  # posting with unary number, TAB, inline comment
    '  Assets:Bar',                               # bare posting
    '  aa: 1',                                    # meta item
    '\tAssets:Tab 1 USD',                         # tab-indented posting
    '; c',                                        # col-0 comment
    '  ; c',                                      # indented comment
    '',                                           # empty line
    '  ',                                         # blanks-only line
    'option "a" "b"',
]
VARIANTS = (('lf', True), ('lf', False), ('crlf', True), ('crlf', False))

ATOMS = (' ', '\t', '\n', '\r\n', '\r\r\n')        # the lexer's line break is \\r*\\n
ATOM_SEQS: list[tuple[str, ...]] = [()] + [(a,) for a in ATOMS] + list(itertools.product(ATOMS, repeat=2))
STRINGS = [''.join(a) for a in ATOM_SEQS]          # 31 strings, '' first
assert len(STRINGS) == 31 and len(set(STRINGS)) == 31
_ATOMS_OF = dict(zip(STRINGS, ATOM_SEQS))

BLANK = (M.Whitespace, M.Newline)
_LF: dict = {}          # {'lf': n} while a case runs at a non-default load factor (goes into replay cases)
SIDES = ('before', 'after')


def _is_blank(t: Any) -> bool:
    return isinstance(t, BLANK) and t.raw_text != ''


def ref_run(toks: list, k: int, side: str) -> tuple[list[int], int]:
    """Indices (document order) of the reference run next to boundary token #k, and the index of the token that
    stopped the scan (-1 / len(toks) at the document edge)."""
    step = -1 if side == 'before' else 1
    n = len(toks)
    i = k + step
    while 0 <= i < n and toks[i].raw_text == '':
        i += step
    run = []
    while 0 <= i < n and _is_blank(toks[i]):
        run.append(i)
        i += step
    if step < 0:
        run.reverse()
    return run, i


def subjects(root: M.RawModel, toks: list) -> list[tuple[tuple, Any]]:
    """Every model and token with spacing accessors except the root: reachable ones by tree path, store tokens that
    no tree slot owns (unclaimed block comments) by store position."""
    out = []
    seen = set()
    for path, m in tree.walk(root):
        seen.add(id(m))
        if not path or isinstance(m, R.Repeated) or not isinstance(m, SpacingAccessorsMixin):
            continue
        out.append((path, m))
    for k, t in enumerate(toks):
        if id(t) not in seen and isinstance(t, SpacingAccessorsMixin) and not isinstance(t, BLANK):
            out.append((('#tok', k), t))
    return out


def locate(root: M.RawModel, path: tuple) -> Optional[Any]:
    if path and path[0] == '#tok':
        toks = list(root.token_store)
        return toks[path[1]] if path[1] < len(toks) else None
    return tree.resolve(root, tuple(path))


def _get(m: Any, side: str, raw: bool) -> Any:
    if side == 'before':
        return m.raw_spacing_before if raw else m.spacing_before
    return m.raw_spacing_after if raw else m.spacing_after


def _set(m: Any, side: str, raw: bool, value: Any) -> None:
    if side == 'before':
        if raw:
            m.raw_spacing_before = value
        else:
            m.spacing_before = value
    else:
        if raw:
            m.raw_spacing_after = value
        else:
            m.spacing_after = value


def _names(ts: Any) -> str:
    return '[' + ', '.join(f'{type(t).__name__}{t.raw_text!r}' for t in ts) + ']'


def _same(a: Any, b: Any) -> bool:
    a, b = list(a), list(b)
    return len(a) == len(b) and all(x is y for x, y in zip(a, b))


def _pathstr(path: tuple) -> str:
    return '/'.join(str(p) for p in path)


# ---------------------------------------------------------------------------------------------------------------
# getters + two-sided clause

def check_getters(text: str, root: M.RawModel, res: core.CaseResult) -> list[tuple[tuple, Any]]:
    store = root.token_store
    toks = list(store)
    order = {id(t): i for i, t in enumerate(toks)}
    subs = subjects(root, toks)
    mincase = dict({'text': text, 'set': 'none'}, **_LF)
    by_first: dict[int, list] = {}
    by_last: dict[int, list] = {}
    got: dict[tuple, Any] = {}
    for path, m in subs:
        try:
            kf, kl = order[id(m.first_token)], order[id(m.last_token)]
        except Exception as e:  # noqa
            res.fail('C17/boundary-token-not-in-store', f'{text!r}: {_pathstr(path)}: {type(e).__name__} {e}', mincase)
            continue
        by_first.setdefault(kf, []).append((path, m))
        by_last.setdefault(kl, []).append((path, m))
        for side, k in (('before', kf), ('after', kl)):
            run, stop = ref_run(toks, k, side)
            want = [toks[i] for i in run]
            res.transitions += 2
            try:
                raw = _get(m, side, True)
                txt = _get(m, side, False)
            except Exception as e:  # noqa
                res.fail(f'C17/getter-raises[{side}]',
                         f'{text!r}: {_pathstr(path)} ({type(m).__name__}).spacing_{side}: {type(e).__name__} {e}', mincase)
                continue
            got[(path, side)] = raw
            if not _same(raw, want):
                res.fail(f'C17/getter-run-differs[{side}]',
                         f'{text!r}: {_pathstr(path)} ({type(m).__name__}).raw_spacing_{side} = {_names(raw)}, '
                         f'reference run = {_names(want)} (tokens #{run})', mincase)
            # text getter == concatenation of the reference run, split into: raw getter == reference (above) and
            # text getter == concatenation of the raw getter (so that one wrong scan is one finding)
            if txt != ''.join(t.raw_text for t in raw):
                res.fail(f'C17/text-getter-differs-from-raw-getter[{side}]',
                         f'{text!r}: {_pathstr(path)} ({type(m).__name__}).spacing_{side} = {txt!r}, raw getter {_names(raw)}', mincase)
            # evidence bookkeeping: the neighbourhood as the scan sees it
            lo, hi = (stop, k) if side == 'before' else (k, stop)
            nb = tuple((type(t).__name__, t.raw_text if isinstance(t, BLANK) else '') for t in toks[max(lo, 0):hi + 1])
            adj = k - 1 if side == 'before' else k + 1
            skipped = 0 <= adj < len(toks) and toks[adj].raw_text == ''
            label = ('run' if run else 'empty') + ('-behind-zero-width' if skipped else '') + \
                    ('-at-document-edge' if stop < 0 or stop >= len(toks) else
                     '-ended-by-zero-width' if toks[stop].raw_text == '' else '')
            res.outcomes[f'get:{side}:{label}'] += 1
            hk = core.h64(('nb', side, nb))
            res.states.add(hk)
            if run:
                res.nontrivial.add(hk)
    # two-sided clause over consecutive visible tokens
    vis = [i for i, t in enumerate(toks) if t.raw_text != '' and not isinstance(t, BLANK)]
    for ia, ib in zip(vis, vis[1:]):
        blanks = [i for i in range(ia + 1, ib) if _is_blank(toks[i])]
        if blanks and blanks[-1] - blanks[0] + 1 != len(blanks):
            res.counters['split-by-zero-width-mark'] += 1
            continue
        res.counters['two-sided-neighbourhoods'] += 1
        left = by_last.get(ia, [])
        right = by_first.get(ib, [])
        for (pa, ma), (pb, mb) in itertools.product(left, right):
            ra, rb = got.get((pa, 'after')), got.get((pb, 'before'))
            if ra is None or rb is None:
                continue
            res.transitions += 1
            if not _same(ra, rb):
                res.fail('C17/two-sided-disagree',
                         f'{text!r}: {_pathstr(pa)}.raw_spacing_after = {_names(ra)} but {_pathstr(pb)}.raw_spacing_before = '
                         f'{_names(rb)}; tokens between: {_names(toks[ia + 1:ib])}', mincase)
    return subs


# ---------------------------------------------------------------------------------------------------------------
# setters

_PRE: dict[str, tuple] = {}

def check_set(text: str, path: tuple, side: str, s: str, via: str, res: core.CaseResult) -> None:
    """One assignment on a fresh parse."""
    mincase = dict({'text': text, 'path': list(path), 'side': side, 's': s, 'via': via}, **_LF)
    nviol0 = len(res.violations)
    root = docs.try_parse(text)
    if root is None:
        res.outcomes['rejected'] += 1
        return
    m = locate(root, tuple(path))
    if m is None:
        res.fail('C17/harness-path-not-found', f'{text!r}: {path}', mincase)
        return
    store = root.token_store
    old = list(store)
    order = {id(t): i for i, t in enumerate(old)}
    old_texts = [t.raw_text for t in old]
    start, off = [], 0
    for tx in old_texts:
        start.append(off)
        off += len(tx)
    whole = ''.join(old_texts)
    k = order[id(m.first_token if side == 'before' else m.last_token)]
    run, _stop = ref_run(old, k, side)
    if run:
        a, b = start[run[0]], start[run[-1]] + len(old_texts[run[-1]])
    else:
        a = b = start[k] if side == 'before' else start[k] + len(old_texts[k])
    old_run = whole[a:b]
    mode = 'replace' if run else 'insert'
    if s == '':
        mode = 'delete' if run else 'noop'
    tag = f'{side},{"run" if run else "no-run"}'
    what = f'{text!r}: {_pathstr(path)} ({type(m).__name__}).{"raw_" if via == "raw" else ""}spacing_{side} = {s!r}'
    pre = _PRE.get(text)                      # a function of the text alone; every execution still parses afresh
    if pre is None:
        _PRE.clear()
        pre = _PRE[text] = (tree.signature(root), bool(tree.check_tree(root)))
    sig0, pre_errs = pre
    if via == 'raw':
        value: Any = tuple((M.Whitespace if at in (' ', '\t') else M.Newline).from_raw_text(at) for at in _ATOMS_OF[s])
    else:
        value = s
    res.transitions += 1
    try:
        _set(m, side, via == 'raw', value)
    except Exception as e:  # noqa
        res.fail(f'C17/setter-raises[{tag}]', f'{what}: {type(e).__name__} {e}', mincase)
        return
    res.outcomes[f'set:{via}:{side}:{mode}'] += 1
    new = list(store)
    new_text = tree.pr(root)
    want_text = whole[:a] + s + whole[b:]
    hk = core.h64(new_text)
    res.states.add(hk)
    if new_text != whole:
        res.nontrivial.add(hk)
    if res.sample is None and run and s not in ('', old_run):
        res.sample = {'text': text, 'subject': _pathstr(path), 'class': type(m).__name__, 'side': side, 'assigned': s,
                      'via': via, 'old_run': old_run, 'printed_after': new_text}
    store_text = ''.join(t.raw_text for t in new)
    if new_text != want_text or store_text != new_text:
        # one key for the text clause; the weaker sub-clauses of the statement are named in the message
        strip = str.maketrans('', '', ' \t\r\n')
        sub = []
        if new_text.translate(strip) != whole.translate(strip):
            sub.append('non-blank text changed')
        if len(new_text) - len(whole) != len(s) - len(old_run):
            sub.append(f'length {len(whole)} -> {len(new_text)}, expected change {len(s) - len(old_run)}')
        if store_text != new_text:
            sub.append(f'token store holds {store_text!r}')
        res.fail(f'C17/setter-text-not-run-replaced[{tag}]',
                 f'{what}: printed {new_text!r}, expected {want_text!r} (run {old_run!r} at [{a}:{b}])'
                 + (' [' + '; '.join(sub) + ']' if sub else ''), mincase)
        return                                   # the token-level and read-back clauses would repeat the same defect
    # token level: everything outside the run keeps identity, order and text
    old_ids = set(order)
    runset = set(run)
    keep = [t for i, t in enumerate(old) if i not in runset]
    survivors = [t for t in new if id(t) in old_ids]
    inserted_at = [i for i, t in enumerate(new) if id(t) not in old_ids]
    inserted = [new[i] for i in inserted_at]
    if not _same(survivors, keep):
        res.fail(f'C17/setter-touches-tokens-outside-run[{tag}]',
                 f'{what}: old tokens now {_names(survivors)}, expected {_names(keep)}', mincase)
    else:
        for t in keep:
            if t.raw_text != old_texts[order[id(t)]]:
                res.fail(f'C17/setter-touches-tokens-outside-run[{tag}]',
                         f'{what}: token #{order[id(t)]} text {old_texts[order[id(t)]]!r} -> {t.raw_text!r}', mincase)
                break
    if ''.join(t.raw_text for t in inserted) != s or not all(isinstance(t, BLANK) for t in inserted):
        res.fail(f'C17/setter-inserted-tokens[{tag}]', f'{what}: inserted {_names(inserted)}', mincase)
    elif inserted:
        if inserted_at[-1] - inserted_at[0] + 1 != len(inserted):
            res.fail(f'C17/setter-inserted-tokens[{tag}]', f'{what}: inserted tokens not contiguous: #{inserted_at}', mincase)
        else:
            # the stretch between the boundary token and the new run holds zero-width tokens only
            kb = next((i for i, t in enumerate(new) if t is old[k]), None)
            if kb is not None:
                gap = new[inserted_at[-1] + 1:kb] if side == 'before' else new[kb + 1:inserted_at[0]]
                wrong_side = kb < inserted_at[0] if side == 'before' else kb > inserted_at[-1]
                if wrong_side or any(t.raw_text != '' for t in gap):
                    res.fail(f'C17/setter-inserted-tokens[{tag}]',
                             f'{what}: new run at #{inserted_at}, boundary token at #{kb}, between: {_names(gap)}', mincase)
        if via == 'raw' and not _same(inserted, value):
            res.fail(f'C17/raw-setter-stores-other-tokens[{tag}]', f'{what}: store holds {_names(inserted)}', mincase)
    if s != '':
        res.transitions += 2
        try:
            back = _get(m, side, False)
            rback = _get(m, side, True)
        except Exception as e:  # noqa
            res.fail(f'C17/getter-raises-after-set[{tag}]', f'{what}: {type(e).__name__} {e}', mincase)
        else:
            if back != s:
                res.fail(f'C17/setter-readback[{tag}]', f'{what}: reads back {back!r}; printed {new_text!r}', mincase)
            elif ''.join(t.raw_text for t in inserted) == s and not _same(rback, inserted):
                res.fail(f'C17/setter-readback-tokens[{tag}]',
                         f'{what}: raw getter returns {_names(rback)}, tokens put in the store {_names(inserted)}', mincase)
    if not pre_errs:
        for key, msg in tree.check_tree(root):
            res.fail(f'C17/tree-{key}-after-set[{tag}]', f'{what}: {msg}', mincase)
            break
        if tree.signature(root) != sig0:
            res.fail(f'C17/setter-changes-tree[{tag}]', f'{what}: tree signature changed', mincase)
    else:
        res.counters['tree-invalid-before-set'] += 1
    # after the assignment the whole getter sweep must still hold on the edited document: the new run may now sit on
    # the other side of a zero-width token than the parser would have put it (only for two representative strings)
    if s in (' ', '') and len(res.violations) == nviol0:
        n0 = len(res.violations)
        check_getters(f'{text!r} after {what}', root, res)
        for i in range(n0, len(res.violations)):
            key, msg, _ = res.violations[i]
            res.violations[i] = (key.replace('C17/', 'C17/after-set:', 1), msg, mincase)


# ---------------------------------------------------------------------------------------------------------------

def run_case(case: dict) -> core.CaseResult:
    lf = case.get('lf')
    if lf is None:
        return _run_case(case)
    from .. import store as store_mod
    store_mod.set_load_factor(lf)        # the same sweep with a token store of many small blocks
    _LF['lf'] = lf
    try:
        return _run_case(case)
    finally:
        _LF.clear()
        store_mod.set_load_factor(None)


def _run_case(case: dict) -> core.CaseResult:
    res = core.CaseResult()
    text = case['text']
    if 'path' in case:                                   # one assignment (replay of a setter finding)
        check_set(text, tuple(case['path']), case['side'], case['s'], case['via'], res)
        return res
    root = docs.try_parse(text)
    if root is None:
        res.outcomes['rejected'] += 1
        return res
    res.outcomes['accepted'] += 1
    res.states.add(core.h64(('doc', text)))
    subs = check_getters(text, root, res)
    res.counters['subjects'] += len(subs)
    scope = case.get('set', 'none')
    if scope == 'none' or res.violations:
        return res
    vias = ('str', 'raw') if case.get('raw') else ('str',)
    for path, m in subs:
        if scope == 'tokens' and not isinstance(m, M.RawTokenModel):
            continue
        res.counters['setter-subjects'] += 1
        for side in SIDES:
            for s in STRINGS:
                for via in vias:
                    check_set(text, path, side, s, via, res)
    return res


def main(run: core.Run) -> None:
    tier = run.tier
    nmax = 2 if tier == 'quick' else 3
    items = []
    for n in range(0, nmax + 1):
        seen = set()
        for seq in itertools.product(LINES, repeat=n):
            for eol, final in VARIANTS:
                t = docs.join_lines(seq, eol, final)
                if t in seen:
                    continue
                seen.add(t)
                items.append({'text': t, 'set': 'all', 'raw': tier != 'quick'})
    # the same getters / setters with the store split into blocks of 2-3 tokens (neighbour scans cross block boundaries)
    small = [dict(c, lf=2) for c in items if c['text'].count('\n') <= (1 if tier == 'quick' else 2) and '\r' not in c['text']]
    items += small
    run.bounds['small_load_factor'] = f'{len(small)} documents repeated at load factor 2'
    run.rule = ('all documents of <= n lines over a 12-kind line alphabet x {LF, CRLF} x {final newline, none}, parsed as File '
                '(comments attributed by default); in each accepted document every model and token with spacing accessors '
                'except the root x {before, after}: raw and text getter against the token-level reference run, two-sided '
                'agreement for consecutive visible tokens; setters: each (subject, side, string) on a fresh parse. '
                'non-trivial = distinct scan neighbourhoods with a non-empty run + distinct printed post-states that differ '
                'from the input')
    run.bounds.update({
        'line_alphabet': LINES, 'max_lines': nmax, 'eol_variants': [f'{e}{"+final" if f else ""}' for e, f in VARIANTS],
        'getters': f'all subjects of all accepted documents <= {nmax} lines, both sides, raw + text, two-sided clause',
        'setter_strings': STRINGS,
        'setters': ('documents <= 2 lines: every model and token, both sides, 31 strings via spacing_*' if tier == 'quick' else
                    'documents <= 3 lines: every model and token, both sides, 31 strings, via spacing_* and via raw_spacing_* '
                    '(one Whitespace/Newline token per atom)'),
    })
    run.assumptions = [
        'texts are drawn from a fixed 12-kind line alphabet; spacing neighbourhoods not producible from it are not covered',
        'blanks split by a zero-width mark (end-of-line mark inside trailing blanks) are two runs; such neighbourhoods are '
        'counted (split-by-zero-width-mark) and exempt from the two-sided clause (DESIGN.md C17)',
        'a document whose syntax is broken by the assigned spacing is not re-parsed; only text, tokens and tree are compared',
        'File is parsed with auto_claim_comments=True only',
    ]
    run.run_cases(run_case, items, f'documents <= {nmax} lines', chunk=8 if tier == 'quick' else 4)
