"""C12 - token value, raw text and lexer agree for every value in the domain (engine E-TOK).

Plain exhaustive product enumerations, no sampling:

  strings     every string of <= L units over the 13-unit adversarial alphabet, as a *value* of EscapedString,
              BlockComment (indents '', '  ', TAB) and InlineComment (restricted to each type's value domain) and
              as a candidate *lexeme* (flat, and framed: '"'+s+'"', ';'+s, indent+';'+s); BlockComment
              additionally over the alphabet + CR CR LF at L <= 3 and over structured multi-line lexemes.
  dates       from_value of every calendar date of the boundary years (quick) / of every date 0001-01-01..9999-12-31
              (thorough); DATE lexemes year x sep x sep x month x day in all 1- and 2-digit spellings.
  numbers     every string <= 6 over {0,1,9,'.',','} matched by NUMBER; every plain-notation Decimal >= 0 built
              from the strings <= 5 over {0,1,9,'.'}.
  other       every class in models.TOKEN_MODELS: all strings <= L over a small per-terminal alphabet, filtered by
              the terminal's regular expression taken from the LIVE grammar.
  histories   fixpoint BFS over value= / raw_text= / indent= assignments on free-standing tokens.

The terminal regular expressions are never copied: they are read from
Parser()._lark.parser.lexer_conf.terminals_by_name[RULE].pattern at run time. "s is a lexeme of RULE" means: the
compiled terminal matches s from position 0 *the way the lexer does* (re.match) and the match ends at len(s); the
from_value direction additionally asserts re.fullmatch as stated in the design.

Value domains (DESIGN.md C12): the image of the type's parse function over the terminal's language. Excluded:
TransactionFlag value 'txn'; InlineComment values that start with a blank or contain CR/LF; comment values with a CR
that is not part of \\r*\\n; negative or exponent-notation Numbers; dates outside datetime.date.
"""
from __future__ import annotations

import calendar
import datetime
import decimal
import itertools
import re
from typing import Any, Callable, Iterable, Optional

from autobean_refactor import models as M
from autobean_refactor import parser as parser_lib

from .. import core

PROPERTY = 'C12'

D = decimal.Decimal

# ---------------------------------------------------------------------------------------------------
# live grammar access

_PARSER: Optional[parser_lib.Parser] = None
_RX: dict[str, Any] = {}

# a terminal whose regexp ends in a look-ahead needs one following character to be matched at all
FOLLOW = {'INDENT': 'x'}


def P() -> parser_lib.Parser:
    global _PARSER
    if _PARSER is None:
        _PARSER = parser_lib.Parser()
    return _PARSER


def terminal_rx(rule: str):
    """Compiled regexp of the live terminal, or None when the grammar only %declares the name."""
    if rule not in _RX:
        conf = P()._lark.parser.lexer_conf
        t = conf.terminals_by_name.get(rule)
        if t is None:
            _RX[rule] = None
        else:
            flags = conf.g_regex_flags
            for f in t.pattern.flags:
                flags |= getattr(re, f.upper())
            _RX[rule] = conf.re_module.compile(t.pattern.to_regexp(), flags)
    return _RX[rule]


def is_lexeme(rule: str, s: str) -> bool:
    rx = terminal_rx(rule)
    m = rx.match(s + FOLLOW.get(rule, ''))
    return m is not None and m.end() == len(s)


def fullmatches(rule: str, s: str) -> bool:
    if rule in FOLLOW:
        return is_lexeme(rule, s)
    return terminal_rx(rule).fullmatch(s) is not None


# ---------------------------------------------------------------------------------------------------
# alphabets

UNITS = ['a', ' ', '"', '\\', 'n', ';', '\n', '\r\n', '\t', '\x0c', '\x85', '\u2028', '\U0001F600']
UNITS_EXT = UNITS + ['\r\r\n']
BC_INDENTS = ['', '  ', '\t']

_FLAGS = list('*!&#?%PSTCURM') + ['t', 'x', 'n', 'a']
LEX_ALPHA: dict[str, tuple[list[str], int, int]] = {      # rule -> (alphabet, L quick, L thorough)
    'ACCOUNT': (['A', 'a', '0', ':', '-', 'é'], 5, 6),
    'CURRENCY': (['A', '0', '/', "'", '.', '_', '-', 'a'], 4, 5),
    'TAG': (['#', '^', 'a', 'A', '0', '-', '_', '/', '.', ' '], 3, 4),
    'LINK': (['^', '#', 'a', 'A', '0', '-', '_', '/', '.', ' '], 3, 4),
    'META_KEY': (['a', 'A', '0', '-', '_', ':'], 4, 5),
    'BOOL': (list('TRUEFALS') + ['t'], 5, 5),
    'POSTING_FLAG': (_FLAGS, 2, 3),
    'TRANSACTION_FLAG': (_FLAGS, 3, 3),
    'INDENT': ([' ', '\t', 'a', '\n'], 4, 5),
    'WHITESPACE': ([' ', '\t', 'a', '\n'], 4, 5),
    '_NEWLINE': (['\r', '\n', 'a'], 4, 5),
    'IGNORED': (['*', ':', '#', 'P', '!', 'a', ' ', ';', '\n'], 3, 4),
    'ADD_OP': (['+', '-', '*', '/'], 2, 3),
    'UNARY_OP': (['+', '-', '*', '/'], 2, 3),
    'MUL_OP': (['+', '-', '*', '/'], 2, 3),
    'DATE': (['0', '1', '9', '-', '/'], 0, 0),              # handled by the date enumerations
    'NUMBER': (['0', '1', '9', '.', ','], 0, 0),            # handled by the number enumerations
    'ESCAPED_STRING': (UNITS, 0, 0), 'BLOCK_COMMENT': (UNITS, 0, 0), 'INLINE_COMMENT': (UNITS, 0, 0),
}

BOUNDARY_YEARS = [1, 9, 10, 99, 100, 999, 1000, 1999, 2000, 2024, 9999]


# ---------------------------------------------------------------------------------------------------
# per-class adapters

def cls_of(name: str):
    for T in M.TOKEN_MODELS.values():
        if T.__name__ == name:
            return T
    raise KeyError(name)


def enc(v: Any) -> Any:
    if isinstance(v, datetime.date):
        return [v.year, v.month, v.day]
    if isinstance(v, D):
        return str(v)
    return v


def dec(T, j: Any) -> Any:
    if T is M.Date:
        return datetime.date(*j)
    if T is M.Number:
        return D(j)
    return j


_BC_DOMAIN = re.compile(r'(?:[^\r]|\r+\n)*')


def in_domain(T, v: Any) -> bool:
    if T is M.BlockComment:
        return _BC_DOMAIN.fullmatch(v) is not None
    if T is M.InlineComment:
        return '\r' not in v and '\n' not in v and not v.startswith(' ')
    if T is M.Number:
        return v >= 0 and v.is_finite() and 'E' not in str(v).upper() and not str(v).startswith('-')
    if T is M.TransactionFlag:
        return v != 'txn'
    return True


def files_for(T, raw: str) -> list[tuple[str, int, int, Optional[str]]]:
    """One-directive files that embed `raw`: (text, number of T tokens expected, index of ours, accessor)."""
    if T is M.EscapedString:
        return [('option "k" ' + raw + '\n', 2, 1, 'raw_value')]
    if T is M.InlineComment:
        return [('option "a" "b" ' + raw + '\n', 1, 0, 'raw_inline_comment'), ('option "a" "b" ' + raw, 1, 0, 'raw_inline_comment')]
    if T is M.BlockComment:
        return [(raw, 1, 0, None), (raw + '\noption "a" "b"\n', 1, 0, None)]
    if T is M.Date:
        return [(raw + ' open Assets:Foo\n', 1, 0, 'raw_date')]
    if T is M.Number:
        return [('2000-01-01 price USD ' + raw + ' EUR\n', 1, 0, None)]
    return []


def date_ref(s: str) -> Optional[datetime.date]:
    """Independent reading of a DATE lexeme; None when it denotes no datetime.date."""
    parts = re.split(r'[-/]', s)
    y, m, d = (int(p) for p in parts)
    if not (1 <= y <= 9999 and 1 <= m <= 12):
        return None
    if not 1 <= d <= calendar.monthrange(y, m)[1]:
        return None
    return datetime.date(y, m, d)


def number_ref(s: str) -> D:
    """Independent reading of a NUMBER lexeme (integer arithmetic, no Decimal parsing of the text)."""
    ip, _, fp = s.replace(',', '').partition('.')
    v = D(int(ip))
    if fp:
        v += D(int(fp)) / (D(10) ** len(fp))
    return v


REF: dict[str, Callable[[str], Any]] = {
    'Date': date_ref, 'Number': number_ref,
    'Account': lambda s: s, 'Currency': lambda s: s, 'PostingFlag': lambda s: s, 'Indent': lambda s: s,
    'Tag': lambda s: s[1:], 'Link': lambda s: s[1:], 'MetaKey': lambda s: s[:-1],
    'Bool': lambda s: {'TRUE': True, 'FALSE': False}[s],
    'TransactionFlag': lambda s: '*' if s == 'txn' else s,
}


def has_value(T) -> bool:
    return hasattr(T, 'from_value')


def has_indent(T) -> bool:
    return T is M.BlockComment


def _same(a: Any, b: Any) -> bool:
    return type(a) is type(b) and a == b


def _short(x: Any, n: int = 120) -> str:
    r = repr(x)
    return r if len(r) <= n else r[:n] + '...'


# ---------------------------------------------------------------------------------------------------
# the two directions

def check_value(T, v: Any, indent: Optional[str], res: core.CaseResult, *, deep: bool, files: bool) -> None:
    """from_value(v) for an in-domain v: value kept, raw text is a lexeme, re-read / re-lexed / re-parsed to v."""
    name = T.__name__
    rule = T.RULE
    call = f'{name}.from_value({v!r}' + (f', indent={indent!r})' if indent is not None else ')')
    mini = {'kind': 'value', 'cls': name, 'v': enc(v), 'indent': indent, 'deep': deep, 'files': files}
    res.transitions += 1
    try:
        tok = T.from_value(v, indent=indent) if indent is not None else T.from_value(v)
    except Exception as ex:  # noqa
        res.fail(f'C12/from_value-raises[{name}]', f'{call} raises {type(ex).__name__}: {ex}', mini)
        return
    if not _same(tok.value, v):
        res.fail(f'C12/from_value-value-differs[{name}]', f'{call}.value == {tok.value!r}', mini)
    if indent is not None and tok.indent != indent:
        res.fail(f'C12/from_value-indent-differs[{name}]', f'{call}.indent == {tok.indent!r}', mini)
    raw = tok.raw_text
    lexeme = is_lexeme(rule, raw) and fullmatches(rule, raw)
    if not lexeme:
        res.outcomes[f'{name}:value->raw-not-a-lexeme'] += 1
        res.fail(f'C12/from_value-raw-not-a-lexeme[{name}]',
                 f'{call}.raw_text == {raw!r} which the {rule} terminal {terminal_rx(rule).pattern!r} does not match as one lexeme', mini)
    res.transitions += 1
    try:
        back = T.from_raw_text(raw)
    except Exception as ex:  # noqa
        res.fail(f'C12/from_value-raw-unreadable[{name}]',
                 f'{name}.from_raw_text({call}.raw_text == {raw!r}) raises {type(ex).__name__}: {ex}', mini)
        return
    if not _same(back.value, v):
        res.fail(f'C12/from_value-raw-reads-as-other-value[{name}]',
                 f'{name}.from_raw_text({call}.raw_text == {raw!r}).value == {back.value!r}', mini)
        return      # parse_token and the file parse go through the same from_raw_text: one defect, one key
    if back.raw_text != raw:
        res.fail(f'C12/from_raw_text-alters-text[{name}]', f'{name}.from_raw_text({raw!r}).raw_text == {back.raw_text!r}', mini)
    if indent is not None and back.indent != indent:
        res.fail(f'C12/from_value-raw-reads-as-other-indent[{name}]',
                 f'{name}.from_raw_text({call}.raw_text == {raw!r}).indent == {back.indent!r}', mini)
    if not lexeme:
        return
    res.outcomes[f'{name}:value->lexeme->value'] += 1
    if deep and rule not in FOLLOW:
        res.transitions += 1
        res.counters['parse_token_calls'] += 1
        try:
            pt = P().parse_token(raw, T)
        except Exception as ex:  # noqa
            res.fail(f'C12/parse_token-rejects-from_value-raw[{name}]',
                     f'parse_token({call}.raw_text == {raw!r}, {name}) raises {type(ex).__name__}: {_short(str(ex))}', mini)
        else:
            if type(pt) is not T or not _same(pt.value, v) or pt.raw_text != raw:
                res.fail(f'C12/parse_token-other-token[{name}]',
                         f'parse_token({call}.raw_text == {raw!r}, {name}) == {pt!r} with value {pt.value!r}', mini)
    if files:
        _check_files(T, raw, v, indent, res, mini, f'{call}.raw_text')


def _check_files(T, raw: str, v: Any, indent: Optional[str], res: core.CaseResult, mini: dict, what: str) -> None:
    name = T.__name__
    for text, n, idx, accessor in files_for(T, raw):
        res.transitions += 1
        res.counters['file_parses'] += 1
        try:
            f = P().parse(text, M.File)
        except Exception as ex:  # noqa
            res.fail(f'C12/file-with-lexeme-unparseable[{name}]',
                     f'{what} == {raw!r} is a {T.RULE} lexeme, yet parse({text!r}, File) raises {type(ex).__name__}: {_short(str(ex))}', mini)
            continue
        toks = [t for t in f.token_store if type(t) is T]
        if len(toks) != n:
            res.fail(f'C12/file-lexes-raw-as-other-tokens[{name}]',
                     f'{what} == {raw!r}: parse({text!r}, File) holds {len(toks)} {name} token(s) {toks!r}, expected {n}', mini)
            continue
        t = toks[idx]
        if accessor is not None and getattr(f.directives[0], accessor) is not t:
            res.fail(f'C12/file-lexes-raw-as-other-tokens[{name}]',
                     f'{what} == {raw!r}: parse({text!r}, File).directives[0].{accessor} is {getattr(f.directives[0], accessor)!r}', mini)
            continue
        if t.raw_text != raw or not _same(t.value, v) or (indent is not None and t.indent != indent):
            res.fail(f'C12/file-token-differs[{name}]',
                     f'{what} == {raw!r} for value {v!r}: parse({text!r}, File) yields {t!r} with value {t.value!r}'
                     + (f' indent {t.indent!r}' if indent is not None else ''), mini)


def check_lexeme(T, s: str, res: core.CaseResult, *, deep: bool, files: bool, rt_deep: bool = False) -> bool:
    """`s` is a lexeme of T's terminal: from_raw_text accepts it, keeps it verbatim; its value survives from_value."""
    name = T.__name__
    rule = T.RULE
    mini = {'kind': 'lexeme', 'cls': name, 's': s, 'deep': deep, 'files': files}
    ref = REF.get(name)
    expected = None
    if ref is not None:
        expected = ref(s)
        if expected is None:            # regex-valid, denotes no value (calendar-invalid date): outside the clause
            res.outcomes[f'{name}:lexeme-without-value'] += 1
            return False
    res.transitions += 1
    try:
        tok = T.from_raw_text(s)
    except Exception as ex:  # noqa
        extra = ''
        fs = files_for(T, s)
        if fs:
            try:
                P().parse(fs[0][0], M.File)
                extra = f'; parse({fs[0][0]!r}, File) succeeds'
            except Exception as ex2:  # noqa
                extra = f'; parse({fs[0][0]!r}, File) raises {type(ex2).__name__} as well (whole file unparseable)'
        res.outcomes[f'{name}:lexeme-raises'] += 1
        res.fail(f'C12/from_raw_text-raises[{name}]',
                 f'{s!r} is a {rule} lexeme ({terminal_rx(rule).pattern!r} matches it entirely) but {name}.from_raw_text({s!r}) '
                 f'raises {type(ex).__name__}: {ex}{extra}', mini)
        return True
    if tok.raw_text != s:
        res.fail(f'C12/from_raw_text-alters-text[{name}]', f'{name}.from_raw_text({s!r}).raw_text == {tok.raw_text!r}', mini)
    res.outcomes[f'{name}:lexeme-accepted'] += 1
    if not has_value(T):
        if deep and rule not in FOLLOW:
            _parse_token_lexeme(T, s, None, res, mini)
        return True
    w = tok.value
    if ref is not None and not _same(w, expected):
        res.fail(f'C12/from_raw_text-wrong-value[{name}]', f'{name}.from_raw_text({s!r}).value == {w!r}, the lexeme denotes {expected!r}', mini)
    ind = tok.indent if has_indent(T) else None
    # the value of a lexeme is in the domain by definition: it must survive from_value
    if in_domain(T, w):
        check_value(T, w, ind, res, deep=rt_deep, files=False)
    elif T is M.Number:
        res.outcomes[f'{name}:lexeme-value-not-plain-notation'] += 1       # e.g. 0.0000000 -> 0E-7: outside the domain
    else:
        raise AssertionError(f'domain predicate of the check rejects the value {w!r} of the {rule} lexeme {s!r}')
    if deep and rule not in FOLLOW:
        _parse_token_lexeme(T, s, w, res, mini)
    if files:
        _check_files(T, s, w, ind, res, mini, 'lexeme')
    return True


def _parse_token_lexeme(T, s: str, w: Any, res: core.CaseResult, mini: dict) -> None:
    name = T.__name__
    res.transitions += 1
    res.counters['parse_token_calls'] += 1
    try:
        pt = P().parse_token(s, T)
    except Exception as ex:  # noqa
        res.fail(f'C12/parse_token-rejects-lexeme[{name}]', f'parse_token({s!r}, {name}) raises {type(ex).__name__}: {_short(str(ex))}', mini)
        return
    if type(pt) is not T or pt.raw_text != s or (has_value(T) and not _same(pt.value, w)):
        res.fail(f'C12/parse_token-other-token[{name}]', f'parse_token({s!r}, {name}) == {pt!r}', mini)


def check_non_lexeme(T, s: str, res: core.CaseResult) -> None:
    """Cross-check of the two lexing routes: what the terminal regexp does not match, parse_token must reject."""
    res.counters['parse_token_calls'] += 1
    try:
        pt = P().parse_token(s, T)
    except Exception:  # noqa
        res.outcomes[f'{T.__name__}:non-lexeme-rejected-by-parse_token'] += 1
        return
    raise AssertionError(f'lexing routes disagree: {T.RULE} regexp does not match {s!r} as one lexeme, parse_token returns {pt!r}')


def candidate(T, s: str, res: core.CaseResult, *, deep: bool, files: bool, cross: bool = False, rt_deep: bool = False) -> None:
    """`s` is a candidate lexeme."""
    name = T.__name__
    res.states.add(core.h64((name, 'lex', s)))
    if terminal_rx(T.RULE) is None:
        return
    if is_lexeme(T.RULE, s):
        res.nontrivial.add(core.h64((name, 'lex', s)))
        check_lexeme(T, s, res, deep=deep, files=files, rt_deep=rt_deep)
    else:
        if T.RULE not in FOLLOW and terminal_rx(T.RULE).fullmatch(s) is not None:
            res.outcomes[f'{name}:fullmatch-but-lexer-stops-earlier'] += 1
        else:
            res.outcomes[f'{name}:not-a-lexeme'] += 1
        if cross and T.RULE not in FOLLOW and core.h64((name, s)) % 8 == 0:
            check_non_lexeme(T, s, res)


def value(T, v: Any, indent: Optional[str], res: core.CaseResult, *, deep: bool, files: bool) -> None:
    name = T.__name__
    key = core.h64((name, 'val', enc(v), indent))
    res.states.add(key)
    if not in_domain(T, v):
        res.outcomes[f'{name}:value-outside-domain'] += 1
        return
    res.nontrivial.add(key)
    check_value(T, v, indent, res, deep=deep, files=files)


# ---------------------------------------------------------------------------------------------------
# enumerations

def _strings(units: list[str], head: list[int], tail: int) -> Iterable[str]:
    h = ''.join(units[i] for i in head)
    for n in range(tail + 1):
        for t in itertools.product(units, repeat=n):
            yield h + ''.join(t)


def _framed(T, s: str) -> list[str]:
    if T is M.EscapedString:
        return [s, '"' + s + '"']
    if T is M.InlineComment:
        return [s, ';' + s]
    return [s, ';' + s, ' ;' + s, '\t;' + s]


def _run_strings(case: dict, res: core.CaseResult) -> None:
    T = cls_of(case['cls'])
    units = UNITS_EXT if case.get('ext') else UNITS
    deep = case.get('deep', True)
    n = 0
    for s in _strings(units, case['head'], case['tail']):
        n += 1
        if T is M.BlockComment:
            for ind in BC_INDENTS:
                value(T, s, ind, res, deep=deep, files=True)
        else:
            value(T, s, None, res, deep=deep, files=True)
        for c in dict.fromkeys(_framed(T, s)):
            candidate(T, c, res, deep=deep, files=True, cross=True)
    res.sample = {'class': T.__name__, 'strings': n, 'first': ''.join(units[i] for i in case['head'])}


BC_BODY_UNITS = ['a', ' ', ';', '\t', '\x0c', '\u2028']
BC_INDENT_PAIRS = [('', ''), (' ', ' '), ('\t', '\t'), (' ', '\t'), ('  ', ' ')]
BC_NEWLINES = ['\n', '\r\n', '\r\r\n']


def _run_bc_lines(case: dict, res: core.CaseResult) -> None:
    """Structured multi-line BLOCK_COMMENT lexemes: indent ; body NL indent ; body [NL indent ; body]."""
    T = M.BlockComment
    first = case['first']
    blen = case['body']
    bodies = [''.join(t) for n in range(blen + 1) for t in itertools.product(BC_BODY_UNITS, repeat=n)]
    n = 0
    for rest in itertools.product(bodies, repeat=case['lines'] - 1):
        for (i1, i2), nl in itertools.product(BC_INDENT_PAIRS, BC_NEWLINES):
            s = i1 + ';' + first + ''.join(nl + i2 + ';' + b for b in rest)
            n += 1
            candidate(T, s, res, deep=False, files=True)
    res.sample = {'class': 'BlockComment', 'structured lexemes': n, 'first line body': first}


def _days(y: int) -> Iterable[datetime.date]:
    d = datetime.date(y, 1, 1)
    one = datetime.timedelta(days=1)
    while True:
        yield d
        if d.month == 12 and d.day == 31:
            return
        d += one


def _run_dates(case: dict, res: core.CaseResult) -> None:
    T = M.Date
    y0, y1 = case['years']
    deep_years = set(case.get('deep_years', []))
    n = 0
    for y in range(y0, y1 + 1):
        for d in _days(y):
            n += 1
            if y in deep_years:
                value(T, d, None, res, deep=True, files=True)
            elif d.day == 1 or d.day >= 28:
                # month boundaries of every year also go through the one-directive file
                last = d.day == calendar.monthrange(y, d.month)[1]
                if d.day == 1 or last:
                    value(T, d, None, res, deep=False, files=True)
                else:
                    check_value(T, d, None, res, deep=False, files=False)
            else:
                check_value(T, d, None, res, deep=False, files=False)
    res.counters['date_values'] += n
    res.sample = {'class': 'Date', 'years': [y0, y1], 'dates': n}


DATE_LEX_YEARS = ['0000', '0001', '0999', '1900', '2000', '2024', '9999', '12345']


def _run_date_lexemes(case: dict, res: core.CaseResult) -> None:
    T = M.Date
    y = case['year']
    n = 0
    spell = lambda k: [str(k)] if k >= 10 else [str(k), f'{k:02d}']  # noqa
    for s1, s2 in itertools.product('-/', repeat=2):
        for m in range(0, 14):
            for ms in spell(m):
                for d in range(0, 33):
                    for ds in spell(d):
                        n += 1
                        candidate(T, f'{y}{s1}{ms}{s2}{ds}', res, deep=(m in (1, 2, 12) and d in (1, 29, 31)), files=(d in (1, 28, 29, 31)))
    # near misses of the terminal: 3-digit year, 3-digit month/day, wrong separator
    for s in [y[:3] + '-01-01', y + '-001-01', y + '-01-001', y + '.01.01', y + '-01', y + '--01-01']:
        candidate(T, s, res, deep=False, files=False, cross=True)
    res.sample = {'class': 'Date', 'year spelling': y, 'lexeme candidates': n}


NUM_LEX_UNITS = ['0', '1', '9', '.', ',']
NUM_VAL_UNITS = ['0', '1', '9', '.']


def _run_num_lexemes(case: dict, res: core.CaseResult) -> None:
    T = M.Number
    n = 0
    for s in _strings(NUM_LEX_UNITS, case['head'], case['tail']):
        n += 1
        candidate(T, s, res, deep=True, files=True, cross=True)
    res.sample = {'class': 'Number', 'lexeme candidates': n}


def _run_num_values(case: dict, res: core.CaseResult) -> None:
    T = M.Number
    n = 0
    for s in _strings(NUM_VAL_UNITS, case['head'], case['tail']):
        try:
            v = D(s)
        except decimal.InvalidOperation:
            res.outcomes['Number:digit-string-is-no-decimal'] += 1
            continue
        n += 1
        value(T, v, None, res, deep=True, files=True)
    res.sample = {'class': 'Number', 'values': n}


def _neighbours(word: str) -> list[str]:
    out = {word, word + word, word.upper(), word.lower(), word.capitalize(), ' ' + word, word + ' ', ''}
    for i in range(len(word)):
        out.add(word[:i] + word[i + 1:])
        out.add(word[:i] + word[i] + word[i:])
        out.add(word[:i] + 'x' + word[i + 1:])
    chars = sorted(set(word)) + ['x']
    for n in (1, 2):
        out.update(''.join(t) for t in itertools.product(chars, repeat=n))
    return sorted(out)


def _run_lex(case: dict, res: core.CaseResult) -> None:
    T = M.TOKEN_MODELS[case['rule']]
    name = T.__name__
    rule = T.RULE
    if 'words' in case:
        cands: Iterable[str] = case['words']
    else:
        cands = _strings(LEX_ALPHA[rule][0], case['head'], case['tail'])
    n = 0
    for s in cands:
        n += 1
        candidate(T, s, res, deep=True, files=False, cross=True, rt_deep=True)
    if case.get('default'):
        # from_default() must itself be a lexeme that reads back unchanged
        default = T.DEFAULT
        res.transitions += 1
        tok = T.from_default()
        if tok.raw_text != default:
            res.fail(f'C12/from_default-text[{name}]', f'{name}.from_default().raw_text == {tok.raw_text!r}, DEFAULT == {default!r}')
        if terminal_rx(rule) is None:
            res.outcomes[f'{name}:no-terminal-in-grammar'] += 1
        elif not is_lexeme(rule, default):
            res.fail(f'C12/from_default-not-a-lexeme[{name}]', f'{name}.DEFAULT == {default!r} is not a {rule} lexeme')
        if has_value(T) and not _same(tok.value, REF[name](default)):
            res.fail(f'C12/from_raw_text-wrong-value[{name}]', f'{name}.from_default().value == {tok.value!r}')
    res.sample = {'class': name, 'rule': rule, 'candidates': n}


# ---------------------------------------------------------------------------------------------------
# assignment histories

HIST: dict[str, dict[str, list]] = {
    'EscapedString': {'init': [('value', 'x'), ('raw', '"\\t"')], 'value': ['', 'a"\\\n', 'n\U0001F600\\n'],
                      'raw': ['""', '"\\n\\""', '"a\nb\\\\"']},
    'BlockComment': {'init': [('value', 'a', ''), ('raw', '  ;x\n  ;y'), ('value', 'p\nq', '\t')],
                     'value': ['', 'a\n b\n', 'x\x0cy'], 'raw': [';', '\t;a\r\n\t; b', '  ; c\n  ;', '; a\x0cb'],
                     'indent': ['', '  ', '\t']},
    'InlineComment': {'init': [('value', 'x'), ('raw', ';x')], 'value': ['', 'a', '\t;"x '], 'raw': [';', ';a', ';   b\x0c']},
    'Date': {'init': [('value', [2000, 1, 1]), ('raw', '2000/1/2')], 'value': [[2000, 1, 1], [2024, 2, 29], [999, 12, 31]],
             'raw': ['2000-01-01', '2024/2-9', '0001-12-31']},
    'Number': {'init': [('value', '1'), ('raw', '1,000.50')], 'value': ['0', '1.50', '1000', '1.00', '1000.0'], 'raw': ['1,000.5', '0.', '007']},
    'MetaKey': {'init': [('value', 'aa'), ('raw', 'b-_:')], 'value': ['aa', 'a-b_C9', 'zz'], 'raw': ['aa:', 'xY-:', 'a0:']},
    'Indent': {'init': [('value', '  '), ('raw', '\t')], 'value': [' ', '\t', '    '], 'raw': ['  ', '\t\t', ' \t']},
    'Tag': {'init': [('value', 'a'), ('raw', '#b')], 'value': ['a', 'A-/.', '0_'], 'raw': ['#a', '#-', '#a.b/c']},
    'Bool': {'init': [('value', True), ('raw', 'FALSE')], 'value': [True, False], 'raw': ['TRUE', 'FALSE']},
    'TransactionFlag': {'init': [('value', '*'), ('raw', 'txn')], 'value': ['*', '!', 'P'], 'raw': ['txn', '*', '#']},
    'Account': {'init': [('value', 'A:B'), ('raw', 'Assets:Foo')], 'value': ['A:B', 'é:0-'], 'raw': ['A:B:C', 'Xy:9z']},
}


def _make(T, init: list):
    if init[0] == 'raw':
        return T.from_raw_text(init[1])
    if len(init) > 2:
        return T.from_value(dec(T, init[1]), indent=init[2])
    return T.from_value(dec(T, init[1]))


def _observe(T, tok) -> tuple:
    v = enc(tok.value)
    return (tok.raw_text, tuple(v) if isinstance(v, list) else v, tok.indent if has_indent(T) else None)


def _step(T, tok, op: list, res: core.CaseResult, mini: dict) -> bool:
    """Apply one assignment on the real token and judge the post-state. False = stop this history."""
    name = T.__name__
    kind, arg = op
    ind = has_indent(T)
    # the state before the step is read from a SHADOW token built from the same raw text, never from `tok` itself: a token
    # that parses its text lazily must behave the same whether or not somebody looked at it before the assignment
    try:
        shadow = T.from_raw_text(tok.raw_text)
        pre_value, pre_indent = shadow.value, (shadow.indent if ind else None)
    except Exception:  # noqa: a raw text outside the language was forced in earlier
        pre_value, pre_indent = tok.value, (tok.indent if ind else None)
    how = f'{mini["init"]!r} then {mini["ops"]!r}: after {kind} = {arg!r}'
    res.transitions += 1
    try:
        if kind == 'value':
            tok.value = dec(T, arg)
        elif kind == 'raw':
            tok.raw_text = arg
        else:
            tok.indent = arg
    except Exception as ex:  # noqa
        if kind == 'raw':
            try:
                T.from_raw_text(arg)
            except Exception:  # noqa  - the same refusal as from_raw_text: one defect, one key
                if is_lexeme(T.RULE, arg) and (REF.get(name) is None or REF[name](arg) is not None):
                    res.fail(f'C12/from_raw_text-raises[{name}]',
                             f'{how}: raw_text setter raises {type(ex).__name__}: {ex} for the {T.RULE} lexeme {arg!r}', mini)
                else:
                    res.outcomes[f'{name}:non-lexeme-refused'] += 1
                return False
        res.fail(f'C12/assignment-raises[{name}]', f'{how}: raises {type(ex).__name__}: {ex}', mini)
        return False
    # reference: what a fresh token would be
    try:
        if kind == 'value':
            v = dec(T, arg)
            exp_value, exp_indent = v, pre_indent
            exp_raw = (T.from_value(v, indent=pre_indent) if ind else T.from_value(v)).raw_text
        elif kind == 'indent':
            exp_value, exp_indent = pre_value, arg
            exp_raw = T.from_value(pre_value, indent=arg).raw_text
        else:
            fresh0 = T.from_raw_text(arg)
            exp_value, exp_indent, exp_raw = fresh0.value, (fresh0.indent if ind else None), arg
    except Exception as ex:  # noqa
        res.fail(f'C12/assignment-accepts-what-constructor-refuses[{name}]', f'{how}: fresh construction raises {type(ex).__name__}: {ex}', mini)
        return False
    if tok.raw_text != exp_raw:
        res.fail(f'C12/raw-after-assignment-differs-from-fresh[{name}]', f'{how}: raw_text == {tok.raw_text!r}, a fresh token has {exp_raw!r}', mini)
    if not _same(tok.value, exp_value):
        res.fail(f'C12/value-after-assignment-differs-from-fresh[{name}]', f'{how}: value == {tok.value!r}, expected {exp_value!r}', mini)
    if ind and tok.indent != exp_indent:
        res.fail(f'C12/indent-after-assignment-differs-from-fresh[{name}]', f'{how}: indent == {tok.indent!r}, expected {exp_indent!r}', mini)
    try:
        fresh = T.from_raw_text(tok.raw_text)
    except Exception as ex:  # noqa
        res.fail(f'C12/assigned-raw-unreadable[{name}]', f'{how}: from_raw_text(tok.raw_text == {tok.raw_text!r}) raises {type(ex).__name__}: {ex}', mini)
        return False
    if not _same(fresh.value, tok.value) or (ind and fresh.indent != tok.indent):
        # when the setter did exactly what a fresh from_value does, the fault lies in the format/parse pair
        pair = kind != 'raw' and tok.raw_text == exp_raw and _same(tok.value, exp_value) and (not ind or tok.indent == exp_indent)
        res.fail(f'C12/from_value-raw-reads-as-other-value[{name}]' if pair else f'C12/value-and-raw-disagree-after-assignment[{name}]',
                 f'{how}: tok.value == {tok.value!r}' + (f', tok.indent == {tok.indent!r}' if ind else '') +
                 f' but from_raw_text(tok.raw_text == {tok.raw_text!r}) has value {fresh.value!r}' + (f', indent {fresh.indent!r}' if ind else ''), mini)
    if kind != 'raw' and not is_lexeme(T.RULE, tok.raw_text):
        res.fail(f'C12/from_value-raw-not-a-lexeme[{name}]', f'{how}: raw_text == {tok.raw_text!r} is not a {T.RULE} lexeme', mini)
    if tok.size != type(tok).from_raw_text(tok.raw_text).size:
        res.fail(f'C12/size-after-assignment-stale[{name}]', f'{how}: size == {tok.size!r}', mini)
    return True


def _ops(name: str) -> list[list]:
    h = HIST[name]
    return [[k, a] for k in ('value', 'raw', 'indent') for a in h.get(k, [])]


def _run_hist(case: dict, res: core.CaseResult) -> None:
    T = cls_of(case['cls'])
    tok = _make(T, case['init'])
    mini = {'kind': 'hist', 'cls': case['cls'], 'init': case['init'], 'ops': case['ops']}
    for op in case['ops']:
        if not _step(T, tok, op, res, mini):
            break
    res.sample = dict(mini, end=list(_observe(T, tok)))


def _hidden(tok: Any) -> str:
    try:
        return repr(sorted((k, repr(v)) for k, v in vars(tok).items() if k != 'store_handle'))
    except TypeError:
        return ''


def _run_bfs(case: dict, res: core.CaseResult) -> None:
    """Fixpoint BFS (bounded by depth) over assignment histories from one initial token; a history is extended
    only when its end state (raw_text, value, indent) is new; states are rebuilt by replaying their history."""
    T = cls_of(case['cls'])
    name = T.__name__
    ops = _ops(name)
    init = case['init']
    seen = {(_observe(T, _make(T, init)), _hidden(_make(T, init)))}
    frontier: list[list] = [[]]
    depth_done = 0
    complete = False
    for depth in range(1, case['depth'] + 1):
        nxt = []
        for hist in frontier:
            for op in ops:
                tok = _make(T, init)
                for o in hist:                 # replay (already judged when it was the last step)
                    getattr(type(tok), {'value': 'value', 'raw': 'raw_text', 'indent': 'indent'}[o[0]]).fset(tok, dec(T, o[1]) if o[0] == 'value' else o[1])
                new = hist + [op]
                mini = {'kind': 'hist', 'cls': name, 'init': init, 'ops': new}
                try:           # observed on a shadow token: `tok` itself must not be looked at before the assignment
                    pre = _observe(T, T.from_raw_text(tok.raw_text))
                except Exception:  # noqa
                    pre = None
                ok = _step(T, tok, op, res, mini)
                if not ok:
                    res.outcomes[f'{name}:assignment-stopped'] += 1
                    continue
                st = _observe(T, tok)
                res.outcomes[f'{name}:{op[0]}=' + ('same' if st == pre else 'changed')] += 1
                res.states.add(core.h64((name, 'st', st)))
                if st != pre:
                    res.nontrivial.add(core.h64((name, 'st', st)))
                # deduplicate on the observable state AND everything the token object carries (a private cache that
                # is stale but not yet visible is a different state with a different future)
                full = (st, _hidden(tok))
                if full not in seen:
                    seen.add(full)
                    nxt.append(new)
        depth_done = depth
        frontier = nxt
        if not frontier:
            complete = True
            break
    res.counters['bfs_fixpoints_reached' if complete else 'bfs_depth_bounded'] += 1
    res.sample = {'class': name, 'init': init, 'states': len(seen), 'depth': depth_done, 'fixpoint': complete}


# ---------------------------------------------------------------------------------------------------

def run_case(case: dict) -> core.CaseResult:
    res = core.CaseResult()
    kind = case['kind']
    if kind == 'value':
        T = cls_of(case['cls'])
        value(T, dec(T, case['v']), case.get('indent'), res, deep=case.get('deep', True), files=case.get('files', True))
    elif kind == 'lexeme':
        T = cls_of(case['cls'])
        candidate(T, case['s'], res, deep=case.get('deep', True), files=case.get('files', True))
    elif kind == 'strings':
        _run_strings(case, res)
    elif kind == 'bc-lines':
        _run_bc_lines(case, res)
    elif kind == 'dates':
        _run_dates(case, res)
    elif kind == 'date-lexemes':
        _run_date_lexemes(case, res)
    elif kind == 'num-lexemes':
        _run_num_lexemes(case, res)
    elif kind == 'num-values':
        _run_num_values(case, res)
    elif kind == 'lex':
        _run_lex(case, res)
    elif kind == 'hist':
        _run_hist(case, res)
    elif kind == 'bfs':
        _run_bfs(case, res)
    else:
        raise ValueError(f'unknown case kind {kind!r}')
    return res


def _heads(nunits: int, L: int) -> list[tuple[list[int], int]]:
    """Partition 'all strings of <= L units' into blocks (head, tail length)."""
    out: list[tuple[list[int], int]] = [([], 0)]
    if L >= 1:
        out += [([i], 0) for i in range(nunits)]
    if L >= 2:
        out += [([i, j], L - 2) for i in range(nunits) for j in range(nunits)]
    return out


def main(run: core.Run) -> None:
    thorough = run.tier == 'thorough'
    P()                               # build the parser once, before the workers fork
    for rule in M.TOKEN_MODELS:
        terminal_rx(rule)
    L = 4 if thorough else 3
    run.rule = (
        'E-TOK product enumerations: (1) all strings of <= L units over the 13-unit adversarial alphabet as values of '
        'EscapedString / BlockComment x 3 indents / InlineComment (in-domain only) and as flat + framed lexeme candidates; '
        'BlockComment also over alphabet + CRCRLF (L<=3) and structured 2-3 line lexemes; (2) calendar dates and DATE '
        'spellings; (3) NUMBER lexemes <= 6 and plain decimals from digit strings <= 5; (4) every TOKEN_MODELS class over a '
        'per-terminal alphabet, filtered by the live terminal regexp; (5) BFS over value/raw_text/indent assignments. '
        'non-trivial = distinct in-domain values whose round trip was executed + distinct strings that the live terminal '
        'matches as one lexeme + distinct token states that an assignment changed')
    run.assumptions = [
        'value domain of a token type = image of its parse function over the terminal language (DESIGN.md C12): no '
        "TransactionFlag value 'txn', no InlineComment value starting with a blank or holding CR/LF, no comment value with a CR "
        'outside \\r*\\n, no negative / exponent-notation Number, dates within datetime.date',
        '"lexeme of a terminal" = the live terminal regexp, matched from position 0 as the lexer does, ends at the end of the '
        'string (INDENT, which ends in a look-ahead, is matched with one following character and is exempt from parse_token)',
        'a regex-valid DATE spelling that denotes no datetime.date (month 13, day 0, year 12345) is outside the clause',
        'the value a lexeme denotes is only compared with an independent reading for Date, Number and the affix-only classes; '
        'for strings and comments only acceptance, verbatim text and survival of the value through from_value are judged',
        'tokens in assignment histories are free-standing (not in a store); store effects belong to C02/C08',
    ]

    # (1) strings
    items: list[dict] = []
    for cls in ('EscapedString', 'BlockComment', 'InlineComment'):
        for head, tail in _heads(len(UNITS), L):
            items.append({'kind': 'strings', 'cls': cls, 'head': head, 'tail': tail})
    run.run_cases(run_case, items, f'strings <= {L} units (values + lexeme candidates, parse_token, files)', chunk=1)
    Lx = 3
    items = [{'kind': 'strings', 'cls': 'BlockComment', 'head': head, 'tail': tail, 'ext': True}
             for head, tail in _heads(len(UNITS_EXT), Lx) if (len(UNITS_EXT) - 1) in head or tail > 0]
    run.run_cases(run_case, items, f'block comments over alphabet + CRCRLF, <= {Lx} units', chunk=4)
    firsts = [''.join(t) for n in range(3) for t in itertools.product(BC_BODY_UNITS, repeat=n)]
    items = [{'kind': 'bc-lines', 'first': f, 'lines': 2, 'body': 2} for f in firsts]
    items += [{'kind': 'bc-lines', 'first': f, 'lines': 3, 'body': 1} for f in firsts if len(f) <= (2 if thorough else 1)]
    run.run_cases(run_case, items, 'structured multi-line block comment lexemes', chunk=2)

    # (2) dates
    if thorough:
        blocks = [[y, min(9999, y + 15)] for y in range(1, 10000, 16)]
    else:
        blocks = [[y, y] for y in BOUNDARY_YEARS]
    items = [{'kind': 'dates', 'years': b, 'deep_years': [y for y in BOUNDARY_YEARS if b[0] <= y <= b[1]]} for b in blocks]
    run.run_cases(run_case, items, 'calendar dates (from_value)', chunk=1)
    run.run_cases(run_case, [{'kind': 'date-lexemes', 'year': y} for y in DATE_LEX_YEARS], 'DATE spellings', chunk=1)

    # (3) numbers
    items = [{'kind': 'num-lexemes', 'head': h, 'tail': t} for h, t in _heads(len(NUM_LEX_UNITS), 6)]
    items += [{'kind': 'num-values', 'head': h, 'tail': t} for h, t in _heads(len(NUM_VAL_UNITS), 5)]
    run.run_cases(run_case, items, 'numbers (lexemes <= 6, decimals from digit strings <= 5)', chunk=1)

    # (4) every token class of the registry
    items = []
    per_class: dict[str, Any] = {}
    for rule, T in M.TOKEN_MODELS.items():
        default = hasattr(T, 'from_default') and isinstance(getattr(T, 'DEFAULT', None), str)
        if rule in LEX_ALPHA:
            alpha, lq, lt = LEX_ALPHA[rule]
            ll = lt if thorough else lq
            if ll == 0:
                per_class[T.__name__] = 'dedicated enumeration'
                continue
            per_class[T.__name__] = {'alphabet': alpha, 'L': ll}
            blocks2 = [([], 0)] + [([i], ll - 1) for i in range(len(alpha))]
            for k, (head, tail) in enumerate(blocks2):
                items.append({'kind': 'lex', 'rule': rule, 'head': head, 'tail': tail, 'default': default and k == 0})
        elif default:
            words = _neighbours(T.DEFAULT)
            per_class[T.__name__] = {'neighbours of DEFAULT': len(words)}
            items.append({'kind': 'lex', 'rule': rule, 'words': words, 'default': True})
        else:
            run.caps_hit.append(f'token class {T.__name__} ({rule}) has no alphabet in the check and no DEFAULT: not enumerated')
    run.run_cases(run_case, items, f'{len(per_class)} registry classes over their terminal alphabets', chunk=1)

    # (5) assignment histories
    depth = 4 if thorough else 3
    items = [{'kind': 'bfs', 'cls': name, 'init': list(init), 'depth': depth} for name, h in HIST.items() for init in h['init']]
    run.run_cases(run_case, items, f'assignment histories, BFS depth <= {depth}', chunk=1)

    run.bounds.update({
        'string_units': UNITS, 'string_max_units': L, 'block_comment_indents': BC_INDENTS,
        'block_comment_extra_unit': {'unit': '\r\r\n', 'max_units': Lx},
        'block_comment_structured_lexemes': {'body_units': BC_BODY_UNITS, 'lines': '2 (bodies <= 2) and 3 (bodies <= 1)',
                                             'indent_pairs': BC_INDENT_PAIRS, 'newlines': BC_NEWLINES},
        'dates_from_value': 'every date 0001-01-01..9999-12-31' if thorough else f'every date of the years {BOUNDARY_YEARS}',
        'dates_through_file_parse': 'all dates of the boundary years + first and last day of every month of every enumerated year',
        'date_lexeme_years': DATE_LEX_YEARS, 'number_lexeme_max_len': 6, 'number_value_digit_string_max_len': 5,
        'per_class': per_class, 'assignment_bfs_depth': depth,
        'assignment_alphabet': {k: {kk: vv for kk, vv in v.items()} for k, v in HIST.items()},
        'parse_token': 'every from_value raw text and every lexeme of the string/number/registry enumerations; boundary '
                       'years for dates; every 8th non-lexeme as a cross-check of the two lexing routes',
    })
