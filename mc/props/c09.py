"""C09 - a value written through a property is the value read back, siblings unaffected.

Part 1 (generic): every value-level property of every model of the corpus x in-domain values incl. None:
get-after-set, sibling frame condition, survives print -> parse.
Part 2 (E-FSM): fixpoint BFS over the dependent groups (cost per/total/currency; payee/narration) against a
record-of-optionals reference, from every initial concrete form.
"""
from __future__ import annotations

import datetime
import decimal
import itertools
from typing import Any, Optional

from autobean_refactor import models as M
from autobean_refactor.models import meta_value_internal as MV
from autobean_refactor.models.internal import properties as PR, value_properties as VP

from .. import core, docexp, docs, ops, tree
from .c05 import op_sig

PROPERTY = 'C09'
D = decimal.Decimal

VALUE_DESCS = (VP.required_value_property, VP.optional_string_property, VP.optional_indented_string_property,
               VP.optional_decimal_property, VP.optional_date_property, MV.optional_meta_value_property)
# documented dependencies / pure aliases between value properties of one model
GROUPS = [
    {'payee', 'narration', 'string0', 'string1', 'string2'},
    {'number_per', 'number_total', 'currency'},
    {'value', 'number'},      # Tolerance.value is an alias of Tolerance.number
]
COMMENT_PROPS = {'leading_comment', 'trailing_comment'}


def value_props(m: Any) -> list[str]:
    out = []
    for name, d in ops.descriptors(type(m)).items():
        if isinstance(d, VALUE_DESCS):
            out.append(name)
        elif isinstance(d, property) and d.fset is not None and name in ('value', 'merge'):
            out.append(name)
    return out


def read_all(m: Any) -> dict[str, Any]:
    out = {}
    for name in value_props(m):
        try:
            v = getattr(m, name)
        except Exception as e:  # noqa
            v = ('raises', type(e).__name__)
        out[name] = freeze(v)
    return out


def freeze(v: Any) -> Any:
    if isinstance(v, M.RawModel):
        return ('model', type(v).__name__, tree.pr(v) if v.token_store is not None or isinstance(v, M.RawTokenModel) else '?')
    return (type(v).__name__, v)


def dependent(a: str, b: str) -> bool:
    return any(a in g and b in g for g in GROUPS)


class ValueOracle(docexp.Oracle):
    name = 'value-roundtrip'
    kinds = {'setval'}
    level = 'basic'

    def op_filter(self, root, op):
        # string0 is grammar-dead; string1/string2 are the positional storage of payee/narration (a lone string
        # is the narration) and payee/narration are decided by the group exploration below
        return op[2] not in ('string0', 'string1', 'string2', 'payee', 'narration')

    def pre(self, root, op):
        m = tree.resolve(root, tuple(op[1]))
        if m is None or isinstance(m, M.RawTokenModel):
            return None
        before = read_all(m)
        # is the state *entering* this step still one that prints to a text which reads back the same values?  After a known C06
        # finding (F22: two surviving tokens touch) it is not, and every later write on that document inherits the damage; the
        # step that caused it was judged at its own depth, so the re-parse clause is skipped here (counted, never silently)
        faithful = True
        again0 = docs.try_parse(tree.pr(root), M.File, True)
        m0 = tree.resolve(again0, tuple(op[1])) if again0 is not None else None
        if m0 is None or type(m0) is not type(m):
            faithful = False
        else:
            b0 = read_all(m0)
            faithful = all(b0.get(n) == v for n, v in before.items() if n not in COMMENT_PROPS and n != 'indent_by')
        return {'m': m, 'before': before, 'glue': tree.glued_pairs(root.token_store), 'faithful': faithful}

    def post(self, root, op, ap, pre, res, case):
        if pre is None or ap.exc is not None:
            if ap.exc is not None:
                res.counters[f'refused:{type(ap.exc).__name__}'] += 1
            return
        m, attr = pre['m'], op[2]
        sig = f'{type(m).__name__}.{attr}'
        where = f'{case["text"]!r} after {case["ops"]}: printed {tree.pr(root)!r}: '
        want = ops.dec(op[3]) if not (isinstance(op[3], list) and op[3] and op[3][0] == 'm') else ap.donors[0]
        try:
            got = getattr(m, attr)
        except Exception as e:  # noqa
            res.fail(f'C09/getter-raises-after-set[{sig}]', where + f'{type(e).__name__}: {e}')
            return
        if isinstance(want, M.RawModel):
            ok = got is want or got == want
        else:
            ok = got == want and type(got) is type(want)
        if not ok:
            res.fail(f'C09/get-after-set-differs[{sig}]', where + f'assigned {want!r}, reads {got!r}')
            return
        after = read_all(m)
        for name, old in pre['before'].items():
            if name == attr or dependent(name, attr):
                continue
            if after.get(name) != old:
                res.fail(f'C09/sibling-property-changed[{sig}]', where + f'{name} was {old!r}, now {after.get(name)!r}')
                return
        # survives print and re-parse
        text = tree.pr(root)
        again = docs.try_parse(text, M.File, True)
        if tree.newly_glued(pre['glue'], root.token_store):
            res.counters['skipped re-parse: known C06 finding (removal leaves two surviving tokens touching)'] += 1
            return
        if not pre['faithful']:
            res.counters['skipped re-parse: the state entering this step already did not read back (judged at the earlier step)'] += 1
            return
        if again is None:
            if attr in ('indent', 'indent_by'):
                return
            from .c06 import COL0_COMMENT_INSIDE_BLOCK
            if COL0_COMMENT_INSIDE_BLOCK.search(text):
                res.counters['skipped re-parse: known C06 finding (col-0 comment inside block)'] += 1
                return
            res.fail(f'C09/printed-document-does-not-parse[{sig}]', where + 'rejected by the parser')
            return
        if attr in COMMENT_PROPS:
            # attribution aside: the comment text must be present (or absent) in the re-parsed document
            lines = tree.comment_lines(again.token_store)
            if want is not None and not all(any(part.strip() in ln for ln in lines) for part in str(want).split('\n') if part.strip()):
                res.fail(f'C09/comment-lost-on-reparse[{sig}]', where + f'comment {want!r} not found in {lines}')
            return
        m2 = tree.resolve(again, tuple(op[1]))
        if m2 is None or type(m2) is not type(m):
            res.counters['re-parse: path no longer resolves (comment attribution shifted items)'] += 1
            return
        after2 = read_all(m2)
        for name, v in after.items():
            if name in COMMENT_PROPS or name == 'indent_by':
                continue
            if after2.get(name) != v:
                if name in ('inline_comment',) and isinstance(v[1], str) and after2.get(name, (None, None))[1] == v[1].rstrip(' \t'):
                    continue
                res.fail(f'C09/value-not-preserved-by-reparse[{sig}]', where + f'{name} reads {v!r} in memory, {after2.get(name)!r} after re-parse')
                return


ORACLE = ValueOracle()
_generic_case = docexp.make_run_case(ORACLE)


# ------------------------------------------------------------------------------------------------
# dependent groups

COST_BASE = ['{}', '{{}}', '{1}', '{{1}}', '{USD}', '{{USD}}', '{1 USD}', '{{1 USD}}', '{1 # 2 USD}', '{# 2 USD}',
             '{1 # USD}', '{# USD}', '{{1 # 2 USD}}', '{{# 2 USD}}', '{{1 # USD}}', '{{# USD}}']


def cost_forms() -> list[str]:
    out = []
    extras = ['', '2000-01-01', '"l"', '*', '2000-01-01, "l", *']
    for base in COST_BASE:
        lb = '{{' if base.startswith('{{') else '{'
        rb = '}}' if lb == '{{' else '}'
        inner = base[len(lb):-len(rb)]
        for ex in extras:
            if not ex:
                out.append(base)
                continue
            parts_after = [p for p in (inner, ex) if p]
            out.append(lb + ', '.join(parts_after) + rb)
            if inner:
                out.append(lb + ', '.join([ex, inner]) + rb)
    return list(dict.fromkeys(out))


COST_FIELDS = ('number_per', 'number_total', 'currency')
COST_VALUES = {'number_per': [None, D(7), D(8)], 'number_total': [None, D(7), D(8)], 'currency': [None, 'ZZZ', 'YYY']}


def cost_doc(form: str) -> str:
    return f'2000-01-01 *\n  Assets:Foo 1 USD {form}\n'


def get_cost(root: Any) -> Any:
    return root.raw_directives[0].raw_postings[0].raw_cost


def cost_record(c: Any) -> tuple:
    return (c.number_per, c.number_total, c.currency)


def cost_other(c: Any) -> tuple:
    return (c.date, c.label, c.merge)


def run_cost_trace(case: dict, check_from: int = 0) -> tuple[core.CaseResult, Optional[tuple]]:
    """case = {group:'cost', form, ops:[[field, encval], ...]}"""
    res = core.CaseResult()
    root = docs.try_parse(cost_doc(case['form']), M.File)
    if root is None:
        res.outcomes['form-rejected'] += 1
        return res, None
    c = get_cost(root)
    rec = list(cost_record(c))
    other = cost_other(c)
    for step, (field, ev) in enumerate(case['ops']):
        v = ops.dec(ev)
        checked = step >= check_from
        where = f'cost {case["form"]!r} after {case["ops"][:step + 1]}: '
        new = list(rec)
        new[COST_FIELDS.index(field)] = v
        expect_refusal = new[0] is not None and new[1] is not None and new[2] is None
        before_text = tree.pr(root)
        try:
            setattr(c, field, v)
            exc = None
        except ValueError as e:
            exc = e
        except Exception as e:  # noqa
            if checked:
                res.fail(f'C09/cost-setter-raises[{field}]', where + f'{type(e).__name__}: {e}')
            return res, None
        if not checked:
            if exc is None:
                rec = new
            continue
        res.transitions += 1
        res.outcomes[f'{field}:{"refused" if exc else "ok"}'] += 1
        if expect_refusal and exc is None:
            res.fail(f'C09/cost-illegal-combination-accepted[{field}]', where + f'record would be {tuple(new)} (per and total without currency) '
                     f'but the call succeeded; printed {tree.pr(c)!r}')
            return res, None
        if not expect_refusal and exc is not None:
            res.fail(f'C09/cost-legal-assignment-refused[{field}]', where + f'record {tuple(rec)} -> {tuple(new)} refused: {exc}')
            return res, None
        if exc is not None:
            if tree.pr(root) != before_text or list(cost_record(c)) != rec:
                res.fail(f'C09/cost-refused-assignment-changed-state[{field}]', where + f'printed {tree.pr(root)!r}, was {before_text!r}')
            return res, None
        rec = new
        got = cost_record(c)
        if list(got) != rec or any(type(a) is not type(b) for a, b in zip(got, rec)):
            res.fail(f'C09/cost-group-differs-from-record[{field}]', where + f'reads (per, total, currency) = {got}, record model {tuple(rec)}; '
                     f'printed {tree.pr(c)!r}')
            return res, None
        if cost_other(c) != other:
            res.fail(f'C09/cost-date-label-merge-changed[{field}]', where + f'(date, label, merge) was {other}, now {cost_other(c)}')
            return res, None
        errs = tree.check_tree(root)
        if errs:
            res.fail(f'C09/cost-tree-invalid[{field}]', where + errs[0][1])
            return res, None
        again = docs.try_parse(tree.pr(root), M.File)
        if again is None:
            res.fail(f'C09/cost-printed-form-does-not-parse[{field}]', where + f'printed {tree.pr(root)!r}')
            return res, None
        c2 = get_cost(again)
        if c2 is None or cost_record(c2) != got or cost_other(c2) != other:
            res.fail(f'C09/cost-group-not-preserved-by-reparse[{field}]', where + f'printed {tree.pr(c)!r} re-reads '
                     f'{cost_record(c2) if c2 is not None else None} / {cost_other(c2) if c2 is not None else None}')
            return res, None
    key = (tree.pr(c), tuple(rec))
    return res, key


TXN_FORMS = ['2000-01-01 *', '2000-01-01 * "n"', '2000-01-01 * "p" "n"', '2000-01-01 * #t', '2000-01-01 * "n" #t ^l ; ic',
             '2000-01-01 * "p" "n" #t\n  Assets:Foo', '2000-01-01 txn  "p"   "n"']
TXN_VALUES = [None, '', 'x']


def run_txn_trace(case: dict, check_from: int = 0) -> tuple[core.CaseResult, Optional[tuple]]:
    res = core.CaseResult()
    root = docs.try_parse(case['form'] + '\n', M.File)
    if root is None:
        res.outcomes['form-rejected'] += 1
        return res, None
    t = root.raw_directives[0]
    rec = [t.payee, t.narration]
    others = {n: v for n, v in read_all(t).items() if not dependent(n, 'payee')}
    for step, (field, ev) in enumerate(case['ops']):
        v = ops.dec(ev)
        checked = step >= check_from
        where = f'transaction {case["form"]!r} after {case["ops"][:step + 1]}: '
        new = list(rec)
        if field == 'payee':
            new[0] = v
            if v is not None and new[1] is None:
                new[1] = ''
        else:
            new[1] = v
            if v is None and new[0] is not None:
                new[1] = ''
        try:
            setattr(t, field, v)
        except Exception as e:  # noqa
            if checked:
                res.fail(f'C09/txn-setter-raises[{field}]', where + f'{type(e).__name__}: {e}')
            return res, None
        rec = new
        if not checked:
            continue
        res.transitions += 1
        got = [t.payee, t.narration]
        if got != rec:
            res.fail(f'C09/payee-narration-differs-from-record[{field}]', where + f'reads (payee, narration) = {got}, record model {rec}; printed {tree.pr(t)!r}')
            return res, None
        now = {n: v2 for n, v2 in read_all(t).items() if not dependent(n, 'payee')}
        if now != others:
            res.fail(f'C09/txn-sibling-changed[{field}]', where + f'other properties changed: {others} -> {now}')
            return res, None
        errs = tree.check_tree(root)
        if errs:
            res.fail(f'C09/txn-tree-invalid[{field}]', where + errs[0][1])
            return res, None
        again = docs.try_parse(tree.pr(root), M.File)
        if again is None:
            res.fail(f'C09/txn-printed-form-does-not-parse[{field}]', where + f'printed {tree.pr(root)!r}')
            return res, None
        t2 = again.raw_directives[0]
        if [t2.payee, t2.narration] != rec:
            res.fail(f'C09/payee-narration-not-preserved-by-reparse[{field}]', where + f'printed {tree.pr(t)!r} re-reads {[t2.payee, t2.narration]}')
            return res, None
    return res, (tree.pr(t), tuple(rec))


def group_bfs(run: core.Run, group: str, forms: list[str]) -> None:
    """sequential fixpoint BFS (the spaces are tiny); every transition from every reachable state"""
    trace = run_cost_trace if group == 'cost' else run_txn_trace
    if group == 'cost':
        menu = [[f, ops.enc(v)] for f in COST_FIELDS for v in COST_VALUES[f]]
    else:
        menu = [[f, ops.enc(v)] for f in ('payee', 'narration') for v in TXN_VALUES]
    items = []
    seen: dict = {}
    frontier = []
    for form in forms:
        r, key = trace({'group': group, 'form': form, 'ops': []})
        run.total.add({'group': group, 'form': form, 'ops': []}, r)
        if key is not None and (form, key) not in seen:
            seen[(form, key)] = True
            frontier.append((form, []))
    allkeys = set()
    depth = 0
    while frontier:
        depth += 1
        cases = [{'group': group, 'form': form, 'ops': hist + [op], 'check_from': len(hist)} for form, hist in frontier for op in menu]
        shard = core.pmap_cases(run_case_with_key, cases)
        run.total.merge(shard)
        nxt = []
        # successor discovery is done sequentially (cheap): replay without oracles
        for form, hist in frontier:
            for op in menu:
                r, key = trace({'group': group, 'form': form, 'ops': hist + [op]}, check_from=len(hist) + 1)
                if key is None:
                    continue
                if key not in allkeys:
                    allkeys.add(key)
                    nxt.append((form, hist + [op]))
        run.log(f'{group} group depth {depth}: {len(frontier)} states expanded, {len(nxt)} new, total {len(allkeys)}')
        frontier = nxt
        if run.total.violations:
            break
    run.bounds[f'{group}_group'] = {'initial_forms': len(forms), 'states': len(allkeys), 'depth_to_fixpoint': depth,
                                    'fixpoint': not frontier, 'values_per_field': 3}


def run_case_with_key(case: dict) -> core.CaseResult:
    trace = run_cost_trace if case['group'] == 'cost' else run_txn_trace
    r, key = trace(case, check_from=case.get('check_from', 0))
    if key is not None:
        h = core.h64((case['group'], key))
        r.states.add(h)
        r.nontrivial.add(h)
        r.sample = {'group': case['group'], 'form': case['form'], 'ops': case['ops'], 'result': key[0]}
    return r


def run_case(case: dict) -> core.CaseResult:
    if 'group' in case:
        c = dict(case)
        c.pop('check_from', None)
        return run_case_with_key(c)
    return _generic_case(case)


def main(run: core.Run) -> None:
    tier = run.tier
    run.rule = ('generic: every value-level property of every model of every corpus document x in-domain values incl. None (get-after-set, '
                'sibling frame, re-parse); groups: fixpoint BFS over assignment sequences to cost per/total/currency and payee/narration '
                'from every initial concrete form, lock-step record-of-optionals reference; non-trivial = distinct canonical post-states')
    run.assumptions = ['documented dependencies are exempt from the sibling clause: payee/narration (and their storage string1/string2), '
                       'cost number_per/number_total/currency', 'block-comment properties are re-read attribution aside',
                       'string0 is grammar-dead and not driven']
    if tier == 'quick':
        items = docexp.corpus(docs.L_FULL, 2, depth=1)
    else:
        items = docexp.corpus(docs.L_FULL, 2, depth=1, modes=(True, False)) + docexp.corpus(docs.L_EDIT, 3, nmin=3, depth=1)
    # thorough: histories of two assignments on every class document (a value written first must survive a later sibling write
    # and a later re-write of the same property; deduplicated by canonical state)
    items += docexp.class_cases(1 if tier == 'quick' else 2)
    docexp.bfs(run, ORACLE, items, 'generic value properties')
    group_bfs(run, 'cost', cost_forms())
    group_bfs(run, 'txn', TXN_FORMS)
