"""Two-document histories for C05: a node popped from one document is inserted into another (a second parse of the same
text); both trees must stay valid, the node must live in exactly one of them, and a later edit through the moved node must
reach the document it now lives in and only that one."""
from __future__ import annotations

from typing import Any

from autobean_refactor import models as M
from autobean_refactor.models.internal import interleaving_comments as IC, properties as PR, repeated as R

from .. import core, docs, ops, tree


def raw_wrappers(root: Any) -> list[tuple[list, str, int]]:
    out = []
    for path, m in tree.walk(root):
        if isinstance(m, (M.RawTokenModel, R.Repeated)):
            continue
        for attr, desc in ops.descriptors(type(m)).items():
            if isinstance(desc, (PR.repeated_node_property, IC.repeated_node_with_interleaving_comments_property)):
                out.append((list(path), attr, len(getattr(m, attr))))
    return out


def run_case(case: dict) -> core.CaseResult:
    """case = {kind:'move', text, mode, src:[path, attr, i], dst:[path, attr, j]} or {kind:'move', text, mode} (all moves)"""
    res = core.CaseResult()
    text, mode = case['text'], case.get('mode', True)
    probe = docs.try_parse(text, M.File, mode)
    if probe is None:
        res.outcomes['rejected'] += 1
        return res
    if 'src' in case:
        one_move(case, res)
        return res
    ws = raw_wrappers(probe)
    for sp, sa, sn in ws:
        sm = tree.resolve(probe, tuple(sp))
        for i in range(sn):
            cls = type(getattr(sm, sa)[i])
            for dp, da, dn in ws:
                dm = tree.resolve(probe, tuple(dp))
                # only into lists that hold elements of that class somewhere in the corpus: same attribute name
                if da != sa:
                    continue
                for j in sorted({0, dn // 2, dn}):
                    one_move({'kind': 'move', 'text': text, 'mode': mode, 'src': [sp, sa, i], 'dst': [dp, da, j]}, res)
                    if res.violations:
                        return res
    h = core.h64(('move', text, mode))
    res.states.add(h)
    if res.transitions:
        res.nontrivial.add(h)
        res.sample = {'text': text, 'moves': res.transitions}
    return res


def one_move(case: dict, res: core.CaseResult) -> None:
    text, mode = case['text'], case.get('mode', True)
    A = docs.try_parse(text, M.File, mode)
    B = docs.try_parse(text, M.File, mode)
    (sp, sa, i), (dp, da, j) = case['src'], case['dst']
    src, dst = tree.resolve(B, tuple(sp)), tree.resolve(A, tuple(dp))
    if src is None or dst is None:
        return
    where = f'{text!r}: x = B.{"/".join(sp)}.{sa}.pop({i}); A.{"/".join(dp)}.{da}.insert({j}, x): '
    sub = dict(case)
    try:
        x = getattr(src, sa).pop(i)
    except Exception as e:  # noqa
        res.fail(f'C05/pop-raises[{sa}.pop]', where + f'{type(e).__name__}: {e}', sub)
        return
    res.transitions += 1
    st = x.token_store
    if isinstance(x, M.RawTreeModel):
        if st is None or st is B.token_store or x.first_token is not st.get_first() or x.last_token is not st.get_last():
            res.fail(f'C05/popped-not-self-contained[{sa}.pop]', where + 'the popped node does not span a store of its own', sub)
            return
        errs = tree.check_tree(x)
        if errs:
            res.fail(f'C05/popped-{errs[0][0]}[{sa}.pop]', where + errs[0][1], sub)
            return
    errs = tree.check_tree(B)
    if errs:
        res.fail(f'C05/{errs[0][0]}[{sa}.pop]', where + 'source document after pop: ' + errs[0][1], sub)
        return
    b_text = tree.pr(B)
    try:
        getattr(dst, da).insert(j, x)
    except Exception as e:  # noqa
        res.fail(f'C05/insert-of-popped-node-raises[{da}.insert]', where + f'{type(e).__name__}: {e}', sub)
        return
    res.transitions += 1
    for name, doc in (('destination', A), ('source', B)):
        errs = tree.check_tree(doc)
        if errs:
            res.fail(f'C05/{errs[0][0]}[{da}.insert of a popped node]', where + f'{name} document: ' + errs[0][1], sub)
            return
    if tree.pr(B) != b_text:
        res.fail(f'C05/insert-elsewhere-changes-source-document[{da}.insert]', where + f'B now prints {tree.pr(B)!r}', sub)
        return
    ids_a = {id(t) for t in A.token_store}
    xt = x.tokens if not isinstance(x, M.RawTokenModel) else [x]
    if not all(id(t) in ids_a for t in xt) or any(id(t) in {id(u) for u in B.token_store} for t in xt):
        res.fail(f'C05/moved-node-tokens-not-in-destination-only[{da}.insert]', where + 'tokens of the moved node are not exactly in A', sub)
        return
    # a later edit through the moved node reaches A and only A
    a_text, b_text = tree.pr(A), tree.pr(B)
    target = next((t for t in xt if isinstance(t, (M.Account, M.Currency, M.EscapedString, M.MetaKey, M.Tag, M.Link, M.Number)) and t.raw_text), None)
    if target is not None:
        old = target.raw_text
        new = {'Account': 'Assets:Moved', 'Currency': 'MOVED', 'EscapedString': '"moved"', 'MetaKey': 'moved:', 'Tag': '#moved',
               'Link': '^moved', 'Number': '424242'}[type(target).__name__]
        target.raw_text = new
        res.transitions += 1
        if tree.pr(B) != b_text or tree.pr(A).count(new) != a_text.count(new) + 1:
            res.fail(f'C05/edit-through-moved-node-lost-or-misplaced[{da}.insert]',
                     where + f'then {old!r} -> {new!r} on the moved node: A prints {tree.pr(A)!r}, B prints {tree.pr(B)!r}', sub)
