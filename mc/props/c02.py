"""C02 - changing one token changes only that token's characters."""
from __future__ import annotations

from .. import core
from . import tokedit

PROPERTY = 'C02'
ORACLE = tokedit.TokenOracle({'span'})
run_case = tokedit.make_run_case(ORACLE)


def main(run: core.Run) -> None:
    run.rule = ('every token of the store of every corpus document (zero-width and trivia tokens included) x raw_text from a '
                'per-class list plus "", "Q", "a\\nb" x value from the class domain; all ordered pairs of assignments (depth 2) '
                'on the small corpus; load factors default / 3 / 2; non-trivial = distinct canonical post-states')
    run.assumptions = ['documents <= 2 lines over the 21-kind alphabet (3 lines over the edit alphabet in thorough)',
                       'an assignment that raises is not judged here (C19)']
    items = tokedit.corpus(run.tier)
    run.bounds['documents'] = len(items)
    run.run_cases(run_case, items, 'token assignments', chunk=2)
