"""C01 - parse then print reproduces the input character for character (E-DOC)."""
from __future__ import annotations

import re

from autobean_refactor import models as M
from autobean_refactor.models.internal import repeated as R

from .. import core, docs, tree

PROPERTY = 'C01'


def _offsets(store) -> tuple[dict[int, int], dict[int, int], str]:
    start, end = {}, {}
    off = 0
    parts = []
    for t in store:
        start[id(t)] = off
        off += len(t.raw_text)
        end[id(t)] = off
        parts.append(t.raw_text)
    return start, end, ''.join(parts)


def check_parsed(text: str, model, target, mode: bool, res: core.CaseResult, harvest=None) -> None:
    tname = target.__name__
    store = model.token_store
    start, end, whole = _offsets(store)
    if whole != text:
        res.fail(f'C01/store-text-differs[{tname}]',
                 f'parse({text!r}, {tname}, auto_claim_comments={mode}): store concatenation {whole!r}')
        return
    for k, msg in tree.check_tree(model, complete=(target is M.File)):
        res.fail(f'C01/tree-{k}[{tname}]', f'parse({text!r}, {tname}, {mode}): {msg}')
        return
    for path, m in tree.walk(model):
        try:
            ft, lt = m.first_token, m.last_token
            s, e = start[id(ft)], end[id(lt)]
        except Exception as ex:  # noqa
            res.fail(f'C01/span[{tname}]', f'parse({text!r}, {tname}, {mode}): {path}: {type(ex).__name__} {ex}')
            return
        printed = tree.pr(m)
        if printed != text[s:e]:
            res.fail(f'C01/submodel-prints-other-than-its-span[{type(m).__name__}]',
                     f'parse({text!r}, {tname}, {mode}): {"/".join(path)} prints {printed!r}, spans {text[s:e]!r}')
            return
        res.transitions += 1
        if harvest is not None and not isinstance(m, (M.RawTokenModel, R.Repeated)) and path:
            harvest.add((type(m).RULE, printed))
    printed = tree.pr(model)
    if target is M.File:
        if printed != text:
            res.fail('C01/file-print-differs', f'print(parse({text!r}, File, {mode})) = {printed!r}')
    else:
        s, e = start[id(model.first_token)], end[id(model.last_token)]
        outside = [t for t in store if (end[id(t)] <= s and start[id(t)] < s) or start[id(t)] >= e]
        outside = [t for t in outside if t.raw_text]
        nontrivia = [t for t in outside if not isinstance(t, (M.Whitespace, M.Newline, M.Indent)) and
                     not (isinstance(t, M.BlockComment) and not t.claimed) and not isinstance(t, M.InlineComment)]
        if nontrivia:
            res.fail(f'C01/fragment-leaves-out-significant-text[{tname}]',
                     f'parse({text!r}, {tname}, {mode}) returns a model printing {printed!r}; left outside: {nontrivia!r}')
        elif not outside and printed != text:
            res.fail(f'C01/fragment-print-differs[{tname}]', f'print(parse({text!r}, {tname}, {mode})) = {printed!r}')


def run_case(case: dict) -> core.CaseResult:
    lf = case.get('lf')
    if lf is None:
        return _run_case(case)
    from .. import store
    store.set_load_factor(lf)         # the same document in a store of 2-3-token blocks (sub-model ranges cross blocks)
    try:
        r = _run_case(case)
        for i, (k, t, sub) in enumerate(r.violations):
            r.violations[i] = (k, t, dict(sub if sub is not None else case, lf=lf))
        return r
    finally:
        store.set_load_factor(None)


def _run_case(case: dict) -> core.CaseResult:
    res = core.CaseResult()
    text = case['text']
    if 'target' in case:
        target = M.TREE_MODELS[case['target']]
        for mode in (True, False):
            m = docs.try_parse(text, target, mode)
            if m is None:
                res.outcomes[f'rejected-as-{case["target"]}'] += 1
                continue
            res.outcomes[f'accepted-as-{case["target"]}'] += 1
            res.nontrivial.add(core.h64((case['target'], text)))
            res.states.add(core.h64((case['target'], text, mode)))
            check_parsed(text, m, target, mode, res)
        return res
    harvest: set = set()
    for mode in (True, False):
        f = docs.try_parse(text, M.File, mode)
        if f is None:
            res.outcomes['rejected'] += 1
            return res
        res.outcomes['accepted'] += 1
        res.states.add(core.h64((text, mode)))
        check_parsed(text, f, M.File, mode, res, harvest)
        if res.violations:
            return res
    if len(text) > 0:
        res.nontrivial.add(core.h64(text))
    res.sample = {'text': text, 'models': len(harvest)}
    res.counters['harvested'] = 0
    res._harvest = harvest  # type: ignore[attr-defined]
    # fragments: every harvested sub-model's own text parsed as its own type, both modes
    frags = []
    for rule, slice_ in sorted(harvest):
        frags.append((rule, slice_))
        if M.TREE_MODELS[rule].INLINE:
            frags.extend((rule, v) for v in layout_variants(slice_))
    for rule, slice_ in frags:
        key = (rule, slice_)
        if key in _SEEN_FRAGMENTS:
            continue
        _SEEN_FRAGMENTS.add(key)
        sub = _run_case({'text': slice_, 'target': rule})
        res.transitions += sub.transitions
        res.states |= sub.states
        res.nontrivial |= sub.nontrivial
        res.outcomes.update(sub.outcomes)
        for k, t, c in sub.violations:
            res.fail(k, t, c or {'text': slice_, 'target': rule})
    return res


_SEEN_FRAGMENTS: set = set()
_GAP = re.compile(r' +')


def layout_variants(text: str) -> list[str]:
    """an inline fragment laid out over several (indented) lines: every single blank run replaced by a line break,
    a line break plus indentation, a tab, or an inline comment plus line break; the parser decides which are accepted"""
    out = []
    gaps = list(_GAP.finditer(text))
    for m in gaps[:4]:
        for rep in ('\n', '\n  ', '\t', ' ; c\n  ', '\r\n\t'):
            out.append(text[:m.start()] + rep + text[m.end():])
    if len(gaps) >= 2:
        out.append(_GAP.sub('\n  ', text))
    return out


# direct-parse layouts per target: text around a model that a fragment parse must tolerate or reject,
# never mangle
DIRECT = {
    'posting': ['  Assets:Foo 1 USD', '  Assets:Foo 1 USD\n', '  ; c\n  Assets:Foo\n  ; d', '\tAssets:Foo\n\t\taa: 1',
                '  Assets:Foo 1 USD ; ic\r\n    aa: 1\r\n    ; c'],
    'meta_item': ['  aa: 1', '  aa:', '  ; c\n  aa: 1\n  ; d', '    aa: "x" ; ic'],
    'transaction': ['2000-01-01 *', '2000-01-01 * "n"\n  Assets:Foo 1 USD\n  Assets:Bar', '; c\n2000-01-01 *\n; d',
                    '2000-01-01 txn "p" "n" #t\r\n  aa: 1\r\n  Assets:Foo', '2000-01-01 *\n  ; c', '2000-01-01 *\n\n'],
    'number_expr': ['1', ' 1 ', '1+2*(3)', '-1', '1 + 2', '( 1 )'],
    'amount': ['1 USD', '1+1 USD'],
    'cost_spec': ['{}', '{{}}', '{1 USD}', '{1 # 2 USD, 2000-01-01, "x", *}', '{ 1 USD }'],
    'unit_price': ['@', '@ 1 USD', '@ USD'],
    'total_price': ['@@', '@@ 1 USD'],
    'tolerance': ['~ 1', '~1'],
    'open': ['2000-01-01 open Assets:Foo', '2000-01-01 open Assets:Foo USD,EUR "STRICT" ; x\n  aa: 1\n'],
    'option': ['option "a" "b"', '; c\noption "a" "b"\n; d', 'option "a" "b" ; ic'],
    'file': ['', '\n', '; c', '  ', '\r\n', '  ; c\n', '* x',
             # optional numbers that evaluate to zero, at the edge of their parent (a model that is falsy must still be counted in a span)
             '2000-01-01 *\n  Assets:Foo 0 USD {0 # 0 USD} @ 0\n  Assets:Bar 0.0 USD {{0}} @@ 0\n  Assets:Baz (1 - 1) USD {0 #} @ (1-1)\n'
             '2000-01-01 balance Assets:Foo 0 ~ 0 USD\n2000-01-01 custom "x" 0 0 USD\n'],
}
DIRECT['unit_price'] += ['@ 0', '@ (1 - 1)', '@ 0.0']
DIRECT['total_price'] += ['@@ 0', '@@ 0.0']
DIRECT['tolerance'] += ['~ 0', '~0.00']
DIRECT['cost_spec'] += ['{0}', '{{0}}', '{0 # 0 USD}', '{0 #}', '{# 0}']
DIRECT['amount'] += ['0 USD', '1-1 USD']
DIRECT['number_expr'] += ['0', '0.0', '1-1', '(0)']


def main(run: core.Run) -> None:
    tier = run.tier
    if tier == 'quick':
        variants = (('lf', True), ('lf', False), ('crlf', True), ('mixed', False), ('crcrlf', True), ('crlf-cut', True))
        items = [{'text': t} for t in docs.texts(docs.L_FULL, 3, variants=variants)]
    else:
        variants = (('lf', True), ('lf', False), ('crlf', True), ('crlf', False), ('mixed', True), ('crcrlf', False), ('crcrlf', True), ('crlf-cut', True))
        items = [{'text': t} for t in docs.texts(docs.L_FULL, 3, variants=variants)]
        items += [{'text': t} for t in docs.texts(docs.L_FULL, 4, nmin=4, variants=(('lf', True), ('mixed', False), ('crlf', True), ('lf', False), ('crcrlf', True)))]
        items += [{'text': t} for t in docs.texts(docs.L_EDIT, 5, nmin=5, variants=(('lf', True), ('crlf', False)))]
        items += [{'text': t} for t in docs.texts(docs.L_EDIT, 6, nmin=6, variants=(('lf', True),))]
    run.rule = ('all line sequences up to n over the 21-kind line alphabet x EOL/final-newline variants, parsed as File '
                'with auto_claim_comments on and off; every sub-model harvested from them parsed again as its own type; '
                'non-trivial = distinct accepted non-empty texts (and distinct accepted (target, fragment) pairs)')
    run.bounds.update({'line_alphabet': docs.L_FULL, 'max_lines': 3 if tier == 'quick' else '4 (full alphabet, 5 EOL variants) / 5 and 6 (edit alphabet)',
                       'eol_variants': [f'{e}{"+final" if f else ""}' for e, f in variants]})
    run.assumptions = ['texts are drawn from a fixed line alphabet (one representative per lexer character class)',
                       'a fragment target may leave trivia (blanks, line breaks, unowned comments) outside the returned model']
    small = [dict(c, lf=lf) for lf in (2, 3) for c in ({'text': t} for t in docs.texts(docs.L_FULL, 2 if tier == 'quick' else 3, variants=(('lf', True), ('crlf', False))))]
    small += [{'text': t + '\n', 'lf': 2} for t in docs.L_CLASSES]
    items += small
    run.bounds['small_load_factor'] = f'{len(small)} documents repeated at load factors 2 and 3'
    run.run_cases(run_case, items, 'documents', chunk=400)
    direct = [{'text': t, 'target': rule} for rule, ts in DIRECT.items() for t in ts]
    # every target on every direct layout as a smoke of the parse-target dimension
    for rule in M.TREE_MODELS:
        for ts in DIRECT.values():
            for t in ts[:2]:
                direct.append({'text': t, 'target': rule})
    direct += [{'text': t} for t in docs.EXOTIC] + [{'text': t + '\n'} for t in docs.L_CLASSES] + [{'text': t} for t in docs.L_CLASSES]
    run.run_cases(run_case, direct, 'direct-parse layouts')
    run.bounds['parse_targets'] = sorted(M.TREE_MODELS)
