"""C13 - number expressions evaluate and compose like ordinary arithmetic (E-OPS, exhaustive).

Part 1: every expression text with <= n operator/parenthesis nodes over 4 literals, in two spacings, is
parsed as NumberExpr; `value` must agree with an independent recursive-descent Decimal evaluator that
works on the TEXT (it never looks at the model tree); printing must give the text back.

Part 2: every operator application (plain / reflected / in-place / unary; int, Decimal, expression
operands; operands free-standing or attached inside a parsed File as posting number / meta value / cost
component; chains of two) is executed on freshly parsed operands.  The result must have the value Python's
Decimal arithmetic gives on the operand values, print to a text that the independent evaluator and the real
parser both evaluate to that value, be a valid tree; non-in-place forms must leave both operands and every
owning document exactly as they were (full snapshot), whether they return or raise.
"""
from __future__ import annotations

import decimal
import operator
from typing import Any, Iterator, Optional

from autobean_refactor import models as M

from .. import core, docs, tree

PROPERTY = 'C13'
D = decimal.Decimal

LITS = ['3', '2.5', '0', '1,000']     # 3: quotients that are inexact in decimal arithmetic (10/3-style rounding)
LITS_R = ['3', '0']            # reduced literal set (one non-zero, one zero) for the widest pair/chain products
MARK = '~'                       # blank slot around a binary operator
SAME = 'the-same-object-as-the-left-operand'


# ---------------------------------------------------------------------------------------------
# enumeration of expression texts (by number of binary / unary / paren nodes)

def gen(lits: list[str], nmax: int) -> list[list[str]]:
    """S[n] = all distinct expression texts with exactly n nodes (MARK around binary operators).
    A text is `atom (binop atom)*`, an atom is `unary* (literal | '(' text ')')`; the decomposition
    first-atom / operator / rest is unique, so no text is produced twice. Rendering all trees with n
    binary/unary/paren nodes gives exactly this set of texts."""
    A: list[list[str]] = [list(lits)]
    S: list[list[str]] = [list(lits)]
    for n in range(1, nmax + 1):
        a = [u + x for u in '+-' for x in A[n - 1]] + ['(' + s + ')' for s in S[n - 1]]
        s = list(a)
        for i in range(0, n):
            j = n - 1 - i
            for first in A[i]:
                for op in '+-*/':
                    head = first + MARK + op + MARK
                    s.extend(head + rest for rest in S[j])
        A.append(a)
        S.append(s)
    return S


def render(m: str, spaced: bool) -> str:
    return m.replace(MARK, ' ' if spaced else '')


def both(ms: list[str]) -> list[str]:
    out = []
    for m in ms:
        out.append(render(m, False))
        if MARK in m:
            out.append(render(m, True))
    return out


# ---------------------------------------------------------------------------------------------
# the independent evaluator: recursive descent over the text following beancount.lark
#   number_add_expr: number_mul_expr (ADD_OP number_mul_expr)*
#   number_mul_expr: number_atom_expr (MUL_OP number_atom_expr)*
#   number_atom_expr: NUMBER | "(" number_add_expr ")" | UNARY_OP number_atom_expr

class EvalSyntaxError(Exception):
    pass


class _Ev:
    def __init__(self, text: str) -> None:
        self.s = text
        self.i = 0

    def ws(self) -> None:
        while self.i < len(self.s) and self.s[self.i] in ' \t':
            self.i += 1

    def peek(self) -> str:
        self.ws()
        return self.s[self.i] if self.i < len(self.s) else ''

    def add(self) -> D:
        v = self.mul()
        while self.peek() in ('+', '-') and self.peek():
            op = self.s[self.i]
            self.i += 1
            w = self.mul()
            v = v + w if op == '+' else v - w
        return v

    def mul(self) -> D:
        v = self.atom()
        while self.peek() in ('*', '/') and self.peek():
            op = self.s[self.i]
            self.i += 1
            w = self.atom()
            v = v * w if op == '*' else v / w
        return v

    def atom(self) -> D:
        c = self.peek()
        if c == '(':
            self.i += 1
            v = self.add()
            if self.peek() != ')':
                raise EvalSyntaxError(f'")" expected at {self.i} in {self.s!r}')
            self.i += 1
            return v
        if c in ('+', '-') and c:
            self.i += 1
            v = self.atom()
            return +v if c == '+' else -v
        if c.isdigit() and c.isascii():
            # NUMBER: (/([0-9]{1,3})(,[0-9]{3})+/ | /[0-9]+/) [/\.[0-9]*/]
            s, n = self.s, len(self.s)
            j = self.i
            while j < n and s[j] in '0123456789':
                j += 1
            if j - self.i <= 3:
                while j + 4 <= n and s[j] == ',' and all(ch in '0123456789' for ch in s[j + 1:j + 4]):
                    j += 4
            if j < len(self.s) and self.s[j] == '.':
                j += 1
                while j < len(self.s) and self.s[j] in '0123456789':
                    j += 1
            lex = self.s[self.i:j]
            self.i = j
            return D(lex.replace(',', ''))
        raise EvalSyntaxError(f'atom expected at {self.i} in {self.s!r}')


def evaluate(text: str) -> D:
    ev = _Ev(text)
    v = ev.add()
    if ev.peek():
        raise EvalSyntaxError(f'trailing text at {ev.i} in {text!r}')
    return v


RAISES = ('raises',)


def guarded(fn) -> tuple:
    """('v', Decimal) | ('raises',) for arithmetic signals; anything else propagates."""
    try:
        return ('v', fn())
    except decimal.DecimalException:
        return RAISES
    except ZeroDivisionError:
        return RAISES


def same(a: tuple, b: tuple) -> bool:
    if a[0] != b[0]:
        return False
    return a[0] == 'raises' or a[1] == b[1]


def show(v: tuple) -> str:
    return 'raises' if v[0] == 'raises' else str(v[1])


def model_value(expr: Any) -> tuple:
    """Value of a model through the implementation; non-arithmetic exceptions are reported as ('error', ..)."""
    try:
        return guarded(lambda: expr.value)
    except Exception as e:  # noqa
        return ('error', f'{type(e).__name__}: {e}')


# ---------------------------------------------------------------------------------------------
# part 1: texts

def run_texts(texts: list[str], res: core.CaseResult) -> None:
    for text in texts:
        res.states.add(core.h64(('t', text)))
        try:
            expr = docs.P().parse(text, M.NumberExpr)
        except Exception as e:  # noqa
            res.outcomes['text:rejected-by-parser'] += 1
            res.fail('C13/grammatical-expression-rejected', f'parse({text!r}, NumberExpr) raises {type(e).__name__}: {e}',
                     {'kind': 'texts', 'texts': [text]})
            continue
        res.transitions += 1
        want = guarded(lambda: evaluate(text))
        got = model_value(expr)
        if not same(want, got):
            res.fail('C13/parsed-value-differs-from-arithmetic',
                     f'parse({text!r}, NumberExpr).value = {show(got) if got[0] != "error" else got[1]}; '
                     f'usual precedence/associativity with Decimal arithmetic gives {show(want)}',
                     {'kind': 'texts', 'texts': [text]})
        printed = tree.pr(expr)
        res.transitions += 1
        if printed != text:
            res.fail('C13/parsed-expression-prints-differently', f'print(parse({text!r}, NumberExpr)) = {printed!r}',
                     {'kind': 'texts', 'texts': [text]})
        res.outcomes['text:division-by-zero' if want is RAISES else 'text:value'] += 1
        if any(c in text for c in '+-*/('):
            res.nontrivial.add(core.h64(('t', text)))
    if texts:
        res.sample = {'text': texts[-1], 'value': show(guarded(lambda: evaluate(texts[-1])))}


# ---------------------------------------------------------------------------------------------
# part 2: operands

CTX = {
    'posting': ('2000-01-01 *\n  Assets:Foo ', ' USD\n',
                ('_directives', 'items[0]', '_postings', 'items[0]', '_number')),
    'meta': ('2000-01-01 *\n  aa: ', '\n',
             ('_directives', 'items[0]', '_meta', 'items[0]', '_value')),
    'cost': ('2000-01-01 *\n  Assets:Foo 1 USD {', '}\n',
             ('_directives', 'items[0]', '_postings', 'items[0]', '_cost', '_cost', '_components', 'items[0]')),
}

BIN = {'+': operator.add, '-': operator.sub, '*': operator.mul, '/': operator.truediv}
IBIN = {'+': operator.iadd, '-': operator.isub, '*': operator.imul, '/': operator.itruediv}
UN = {'+': operator.pos, '-': operator.neg}


class Operand:
    def __init__(self, spec: list) -> None:
        self.spec = spec
        self.kind = spec[0]
        self.obj: Any = None
        self.file: Any = None
        self.ctx: Optional[str] = None
        self.doc_text = ''
        self.text = ''
        self.note = ''

    @property
    def is_expr(self) -> bool:
        return self.kind in ('e', 'r')

    def describe(self) -> str:
        if self.kind == 'i':
            return repr(self.obj)
        if self.kind == 'd':
            return f'Decimal({str(self.obj)!r})'
        if self.kind == 'r':
            return f'({describe_spec(self.spec[1])} {self.spec[2]} {describe_spec(self.spec[3])})'
        return describe_spec(self.spec)


def describe_spec(spec: list) -> str:
    if spec[0] == 'i':
        return repr(spec[1])
    if spec[0] == 'd':
        return f'Decimal({spec[1]!r})'
    if spec[0] == 'r':
        return f'({describe_spec(spec[1])} {spec[2]} {describe_spec(spec[3])})'
    if spec[0] in ('same', SAME):
        return '<the same object>'
    if spec[2] == 'free':
        return f'parse({spec[1]!r})'
    pre, suf, _ = CTX[spec[2]]
    return f'<{spec[2]} number {spec[1]!r} of parse({pre + spec[1] + suf!r}, File)>'


class Skip(Exception):
    pass


def build(spec: list) -> Operand:
    o = Operand(spec)
    k = spec[0]
    if k == 'i':
        o.obj = int(spec[1])
    elif k == 'd':
        o.obj = D(spec[1])
    elif k == 'e':
        text, ctx = spec[1], spec[2]
        o.text = text
        if ctx == 'free':
            o.obj = docs.P().parse(text, M.NumberExpr)
        else:
            pre, suf, path = CTX[ctx]
            o.ctx = ctx
            o.doc_text = pre + text + suf
            try:
                o.file = docs.P().parse(o.doc_text, M.File)
            except Exception as e:  # noqa
                raise Skip(f'context-rejected[{ctx}]') from e
            o.obj = tree.resolve(o.file, path)
            if not isinstance(o.obj, M.NumberExpr) or tree.pr(o.obj) != text:
                raise Skip(f'context-parsed-otherwise[{ctx}]')
    elif k == 'r':
        x, y = build(spec[1]), build(spec[3])
        try:
            o.obj = BIN[spec[2]](x.obj, y.obj)
        except Exception as e:  # noqa
            raise Skip('chain-first-step-raised') from e
        if not isinstance(o.obj, M.NumberExpr):
            raise Skip('chain-first-step-no-expression')
        o.text = tree.pr(o.obj)
    else:
        raise ValueError(spec)
    return o


def operand_value(o: Operand) -> tuple:
    if o.is_expr:
        return model_value(o.obj)
    return ('v', D(o.obj))


def snap(o: Operand) -> Any:
    if not o.is_expr:
        return (type(o.obj).__name__, str(o.obj))
    s = [tree.snapshot(o.obj), tree.pr(o.obj)]
    if o.file is not None:
        s.append(tree.snapshot(o.file))
        s.append(tree.pr(o.file))
    return s


def site_of(form: str, op: str, x: Operand) -> str:
    fam = 'add' if op in '+-' else 'mul'
    if form == 'unary':
        return '__neg__'
    if form == 'inplace':
        return f'__i{fam}__'
    if not x.is_expr:
        return f'__r{fam}__'
    return f'__{fam}__'


def check_result(r: Any, want: tuple, site: str, what: str, res: core.CaseResult, case: dict, *, pfx: str) -> Optional[str]:
    """value / print+evaluate / print+reparse / check_tree of a result expression. Returns printed text."""
    if not isinstance(r, M.NumberExpr):
        res.fail(f'C13/{pfx}-result-is-no-expression[{site}]', f'{what} returned {r!r}', case)
        return None
    got = model_value(r)
    if not same(want, got):
        res.fail(f'C13/{pfx}-result-value-differs[{site}]',
                 f'{what}: result.value = {show(got) if got[0] != "error" else got[1]}, Decimal arithmetic on the operand '
                 f'values gives {show(want)}; result prints {tree.pr(r)!r}', case)
    printed = tree.pr(r)
    try:
        ev = guarded(lambda: evaluate(printed))
    except EvalSyntaxError as e:
        ev = ('error', str(e))
    if not same(want, ev):
        res.fail(f'C13/{pfx}-printed-result-evaluates-differently[{site}]',
                 f'{what}: result prints {printed!r}, which evaluates to {show(ev) if ev[0] != "error" else ev[1]}; '
                 f'expected {show(want)}', case)
    try:
        back = model_value(docs.P().parse(printed, M.NumberExpr))
    except Exception as e:  # noqa
        back = ('error', f'parser rejects it: {type(e).__name__}')
    if not same(want, back):
        res.fail(f'C13/{pfx}-printed-result-reparses-differently[{site}]',
                 f'{what}: result prints {printed!r}, which re-parses to {show(back) if back[0] != "error" else back[1]}; '
                 f'expected {show(want)}', case)
    errs = tree.check_tree(r)
    if errs:
        res.fail(f'C13/{pfx}-result-tree-{errs[0][0]}[{site}]', f'{what}: result {printed!r}: {errs[0][1]}', case)
    res.transitions += 3
    return printed


def run_app(app: dict, res: core.CaseResult) -> None:
    form, op = app['form'], app['op']
    try:
        x = build(app['x'])
        if form == 'unary':
            y = None
        elif app['y'][0] in ('same', SAME):
            y = x
        else:
            y = build(app['y'])
    except Skip as s:
        res.outcomes[f'skipped:{s}'] += 1
        return
    site = site_of(form, op, x)
    case = dict(app, kind='app')
    res.states.add(core.h64(('a', app['x'], app.get('y'), op, form)))
    vx = operand_value(x)
    vy = operand_value(y) if y is not None else None
    if vx[0] == 'error' or (vy is not None and vy[0] == 'error'):
        # an operand whose own value cannot be computed (only reachable after an earlier defect)
        res.outcomes['skipped:operand-value-error'] += 1
        return
    if form == 'unary':
        want = RAISES if vx is RAISES else guarded(lambda: UN[op](vx[1]))
        what = f'{op}{x.describe()}'
    else:
        want = RAISES if (vx is RAISES or vy is RAISES) else guarded(lambda: BIN[op](vx[1], vy[1]))
        what = f'{x.describe()} {op}{"=" if form == "inplace" else ""} {y.describe()}'
        if y is x:
            what = f'x {op} x with x = {x.describe()}'
    if y is x:
        operands = [('right', x)]       # the same object on both sides: it is the role of right operand that matters
    else:
        operands = [('left', x)] + ([('right', y)] if y is not None else [])
    attached = any(o.file is not None for _, o in operands)

    if form in ('plain', 'unary'):
        pfx = 'unary-operator' if form == 'unary' else ('reflected-operator' if site.startswith('__r') else 'non-inplace-operator')
        before = [snap(o) for _, o in operands]
        exc = None
        r = None
        try:
            r = UN[op](x.obj) if form == 'unary' else BIN[op](x.obj, y.obj)
        except Exception as e:  # noqa
            exc = e
        res.transitions += 1
        after = [snap(o) for _, o in operands]
        how = 'returned' if exc is None else f'raised {type(exc).__name__}: {exc}'
        for (side, o), b, a in zip(operands, before, after):
            if not o.is_expr or a == b:
                continue
            if o.file is not None and (a[2] != b[2] or a[3] != b[3]):
                res.fail(f'C13/{pfx}-changes-attached-operand-document[{site}]',
                         f'{what} {how}; the document of the {side} operand printed {b[3]!r} before and prints {a[3]!r} after'
                         + ('' if a[3] != b[3] else ' (same text, tree/tokens differ)'), case)
            else:
                role = 'operand' if (pfx != 'non-inplace-operator') else f'{side}-operand'
                res.fail(f'C13/{pfx}-changes-{role}[{site}]',
                         f'{what} {how}; the {side} operand printed {b[1]!r} before and prints {a[1]!r} after '
                         f'(token store now holds {len(list(o.obj.token_store)) if o.obj.token_store is not None else None} tokens)',
                         case)
        if exc is not None:
            where = 'attached' if attached else 'free-standing'
            res.outcomes[f'{site}:raised-{where}'] += 1
            res.fail(f'C13/{pfx}-raises-on-{where}-operand[{site}]', f'{what} raised {type(exc).__name__}: {exc}', case)
            return
        for _, o in operands:
            if o.is_expr and r is o.obj:
                res.fail(f'C13/{pfx}-returns-an-operand[{site}]', f'{what} returned one of its operands', case)
        printed = check_result(r, want, site, what, res, case, pfx=pfx)
    else:  # in-place
        pfx = 'inplace-operator'
        if y.file is not None:
            # the right operand of an in-place form cannot be consumed; refusal and its frame condition are C19's
            try:
                IBIN[op](x.obj, y.obj)
                res.outcomes[f'{site}:attached-right-operand-accepted'] += 1
            except Exception:  # noqa
                res.outcomes[f'{site}:attached-right-operand-refused(C19)'] += 1
            return
        try:
            r = IBIN[op](x.obj, y.obj)
        except Exception as e:  # noqa
            res.transitions += 1
            res.outcomes[f'{site}:raised'] += 1
            res.fail(f'C13/{pfx}-raises[{site}]', f'{what} raised {type(e).__name__}: {e}', case)
            return
        res.transitions += 1
        printed = check_result(r, want, site, what, res, case, pfx=pfx)
        if printed is not None and x.file is not None:
            pre, suf, path = CTX[x.ctx]
            doc = tree.pr(x.file)
            if doc != pre + printed + suf:
                res.fail(f'C13/{pfx}-document-text-differs[{site}]',
                         f'{what}: the document prints {doc!r}; expected {pre + printed + suf!r}', case)
            errs = tree.check_tree(x.file)
            if errs:
                res.fail(f'C13/{pfx}-document-tree-{errs[0][0]}[{site}]', f'{what}: document {doc!r}: {errs[0][1]}', case)
            if tree.resolve(x.file, path) is not r:
                res.fail(f'C13/{pfx}-result-not-in-document[{site}]',
                         f'{what}: the document slot no longer holds the expression returned by the in-place operator', case)
            back: tuple
            try:
                f2 = docs.P().parse(doc, M.File)
                e2 = tree.resolve(f2, path)
                back = model_value(e2) if isinstance(e2, M.NumberExpr) else ('error', f'slot holds {type(e2).__name__}')
            except Exception as e:  # noqa
                back = ('error', f'parser rejects it: {type(e).__name__}')
            if not same(want, back):
                res.fail(f'C13/{pfx}-document-reparses-differently[{x.ctx}]',
                         f'{what}: the document prints {doc!r}, whose {x.ctx} number re-parses to '
                         f'{show(back) if back[0] != "error" else back[1]}; expected {show(want)}', case)
            res.transitions += 3
    label = 'division-by-zero' if want is RAISES else 'value'
    where = 'attached' if attached else 'free'
    res.outcomes[f'{site}:{where}:{label}'] += 1
    if printed is not None:
        if printed.count('(') > x.text.count('(') + (y.text.count('(') if y is not None and y.is_expr else 0):
            res.outcomes[f'{site}:parentheses-added'] += 1
        if (x.is_expr and any(c in x.text for c in '+-*/(')) or (y is not None and y.is_expr and any(c in y.text for c in '+-*/(')):
            res.nontrivial.add(core.h64((site, op, printed, where)))
        res.sample = {'call': what, 'result': printed, 'value': show(want)}


def expand(case: dict) -> Iterator[dict]:
    """A 'pair' case stands for the product ops x forms on one operand pair."""
    for form in case['forms']:
        for op in (case['ops'] if form != 'unary' else case.get('unary_ops', '+-')):
            yield {'kind': 'app', 'x': case['x'], 'y': None if form == 'unary' else case['y'], 'op': op, 'form': form}


def run_case(case: dict) -> core.CaseResult:
    res = core.CaseResult()
    kind = case['kind']
    if kind == 'texts':
        run_texts(case['texts'], res)
    elif kind == 'app':
        run_app(case, res)
    elif kind == 'pair':
        for app in expand(case):
            run_app(app, res)
    elif kind == 'pairs':        # compact: many right operands for one left operand
        for y in case['ys']:
            for app in expand({'x': case['x'], 'y': y, 'ops': case['ops'], 'forms': case['forms']}):
                run_app(app, res)
    else:
        raise ValueError(kind)
    return res


# ---------------------------------------------------------------------------------------------
# enumeration

INTS = [3, 0, -2]
DECS = ['2.5', '0', '-0.5']


def E(ts: list[str], ctx: str = 'free') -> list[list]:
    return [['e', t, ctx] for t in ts]


def chunks(xs: list, n: int) -> Iterator[list]:
    for i in range(0, len(xs), n):
        yield xs[i:i + n]


def main(run: core.Run) -> None:
    thorough = run.tier != 'quick'
    nmax = 4 if thorough else 3
    S = gen(LITS, nmax)
    SR = gen(LITS_R, 2)
    # ---- part 1
    texts: list[str] = []
    for n in range(nmax + 1):
        texts.extend(both(S[n]))
    items: list[dict] = [{'kind': 'texts', 'texts': c} for c in chunks(texts, 100)]
    run.run_cases(run_case, items, f'part 1: {len(texts)} expression texts (<= {nmax} nodes, 2 spacings)', chunk=25)

    e0, e1, e2 = S[0], S[1], S[2]
    E1 = both(e0) + both(e1)                                   # <= 1 node, both spacings (144)
    E1n = [render(m, False) for m in e0 + e1]                  # <= 1 node, no blanks (80)
    E1r = [render(m, False) for m in SR[0] + SR[1]]            # <= 1 node over the reduced literals (24)
    E2n = [render(m, False) for m in e2]                       # exactly 2 nodes, no blanks (1508)
    E2r = [render(m, False) for m in SR[2]]                    # exactly 2 nodes, reduced literals (258)
    OPS = '+-*/'

    # ---- part 2a: expression op expression, free-standing, plain + in-place
    pairs: list[tuple[list[str], list[str]]] = [(E1, E1)]
    if thorough:
        pairs += [(E2n, E1n), (E1n, E2n), (E2r, E2r)]
    items = []
    npairs = 0
    for xs, ys in pairs:
        for xt in xs:
            for yc in chunks(ys, 40):
                items.append({'kind': 'pairs', 'x': ['e', xt, 'free'], 'ys': E(yc), 'ops': OPS, 'forms': ['plain', 'inplace']})
                npairs += len(yc)
    run.run_cases(run_case, items, f'part 2a: {npairs} ordered free-standing pairs x 4 ops x (plain, in-place)', chunk=4)

    # ---- part 2b: scalars (plain, reflected, in-place), unary, the same object on both sides
    singles = E1 + (both(e2) if thorough else [])
    items = []
    for xt in singles:
        x = ['e', xt, 'free']
        for sc in [['i', n] for n in INTS] + [['d', s] for s in DECS]:
            items.append({'kind': 'pair', 'x': x, 'y': sc, 'ops': OPS, 'forms': ['plain', 'inplace']})
            items.append({'kind': 'pair', 'x': sc, 'y': x, 'ops': OPS, 'forms': ['plain']})
        items.append({'kind': 'pair', 'x': x, 'y': None, 'ops': '', 'forms': ['unary']})
        items.append({'kind': 'pair', 'x': x, 'y': [SAME], 'ops': OPS, 'forms': ['plain']})
    run.run_cases(run_case, items, f'part 2b: {len(singles)} expressions x (3 ints, 3 Decimals) x 4 ops x (plain, reflected, '
                  'in-place); unary +/-; x op x')

    # ---- part 2c: operands attached inside a document
    att_x = E1 if thorough else E1n
    free_y = E1n if thorough else E1r
    items = []
    for ctx in CTX:
        for xt in att_x:
            xa, xf = ['e', xt, ctx], ['e', xt, 'free']
            for yc in chunks(free_y, 40):
                # left operand attached (plain must not touch the document, in-place must edit exactly the span)
                items.append({'kind': 'pairs', 'x': xa, 'ys': E(yc), 'ops': OPS, 'forms': ['plain', 'inplace']})
            for yt in free_y:
                # right operand attached (plain; the in-place call is a C19 refusal, recorded as outcome only)
                items.append({'kind': 'pair', 'x': ['e', yt, 'free'], 'y': xa, 'ops': OPS, 'forms': ['plain', 'inplace']})
            for yt in E1r:
                # both attached, in two documents
                items.append({'kind': 'pair', 'x': xa, 'y': ['e', yt, 'posting'], 'ops': OPS, 'forms': ['plain']})
            items.append({'kind': 'pair', 'x': xa, 'y': None, 'ops': '', 'forms': ['unary']})
            items.append({'kind': 'pair', 'x': xa, 'y': [SAME], 'ops': OPS, 'forms': ['plain']})
            for sc in [['i', n] for n in INTS] + [['d', s] for s in DECS]:
                items.append({'kind': 'pair', 'x': xa, 'y': sc, 'ops': OPS, 'forms': ['plain', 'inplace']})
                items.append({'kind': 'pair', 'x': sc, 'y': xa, 'ops': OPS, 'forms': ['plain']})
        if thorough:
            for xt in E2n:
                xa = ['e', xt, ctx]
                for sc in (['i', 3], ['d', '-0.5']):
                    items.append({'kind': 'pair', 'x': xa, 'y': sc, 'ops': OPS, 'forms': ['plain', 'inplace']})
                    items.append({'kind': 'pair', 'x': sc, 'y': xa, 'ops': OPS, 'forms': ['plain']})
                items.append({'kind': 'pair', 'x': xa, 'y': None, 'ops': '', 'forms': ['unary']})
    run.run_cases(run_case, items, f'part 2c: operands attached as {"/".join(CTX)} ({len(att_x)} attached x {len(free_y)} free texts)')

    # ---- part 2d: chains (a op b) op2 c, c op2 (a op b), (a op b) op2= c
    ops2 = OPS if thorough else '-/'
    cs = E1r if thorough else [render(m, False) for m in sum(gen(['2.5'], 1), [])] + ['0']
    items = []
    nch = 0
    for at in E1r:
        for bt in E1r:
            for op in OPS:
                r = ['r', ['e', at, 'free'], op, ['e', bt, 'free']]
                for cc in chunks(cs, 40):
                    items.append({'kind': 'pairs', 'x': r, 'ys': E(cc), 'ops': ops2, 'forms': ['plain', 'inplace']})
                    nch += len(cc) * len(ops2) * 2
                for ct in cs:
                    items.append({'kind': 'pair', 'x': ['e', ct, 'free'], 'y': r, 'ops': ops2, 'forms': ['plain']})
                    nch += len(ops2)
    run.run_cases(run_case, items, f'part 2d: {nch} chains (a op b) op2[=] c and c op2 (a op b)', chunk=8)

    run.rule = ('part 1: every distinct expression text with <= n binary/unary/parenthesis nodes over the literals, rendered '
                'without blanks and with single blanks around binary operators, parsed as NumberExpr; part 2: every ordered '
                'pair of freshly parsed operands from the stated sets x {+,-,*,/} x {plain, reflected, in-place}, unary +/-, '
                'x op x, operands free-standing or attached (posting number / meta value / cost component) in a parsed File, '
                'and chains of two applications; non-trivial = distinct texts with at least one operator or parenthesis '
                '(part 1) / distinct (call site, operator, printed result) where an expression operand has >= 1 node (part 2)')
    run.bounds.update({
        'literals': LITS, 'max_nodes_texts': nmax, 'spacings': ['none', 'single blanks around binary operators'],
        'texts': len(texts),
        'free_pairs': ('E<=1 x E<=1 in both spacings (144 x 144)' +
                       ('; no-blank pairs with nodes (2,<=1) and (<=1,2) over all literals; (2,2) over literals '
                        f'{LITS_R}' if thorough else '')),
        'scalars': {'int': INTS, 'Decimal': DECS},
        'scalar_and_unary_operands': f'{len(singles)} texts (<= {2 if thorough else 1} nodes, both spacings)',
        'attached_contexts': {k: v[0] + '<a>' + v[1] for k, v in CTX.items()},
        'attached_operands': f'{len(att_x)} texts attached x {len(free_y)} free partner texts'
                             + ('; all 2-node no-blank texts attached x 2 scalars + unary' if thorough else ''),
        'chains': f'a, b in E<=1 over {LITS_R} (24 x 24) x 4 ops x op2 in {ops2!r} x c in {cs!r}',
    })
    run.assumptions = [
        'Decimal arithmetic runs under the default decimal context (precision 28, traps for division by zero / invalid operation)',
        'scalar operands are ints and Decimals whose str() is a NUMBER lexeme (no exponent form; formatting of numbers is C12)',
        'values are compared numerically (Decimal ==); an arithmetic signal on one side must be matched by one on the other',
        'the right operand of an in-place operator may be consumed (the property only promises unchanged operands for '
        'non-in-place forms); an attached right operand of an in-place form is C19 (refusal) and only counted here',
    ]
    if thorough:
        run.caps_hit.append(
            'operator applications: the set of <= 2-node texts has 1588 members (3100 with both spacings), not ~150; the full '
            'E2 x E2 product (2.5 M ordered pairs x 8 forms) is outside the budget. Enumerated instead: E<=1 x E<=1 in both '
            'spacings, all no-blank pairs with node counts (2,<=1) and (<=1,2) over all four literals, and all (2,2) pairs over '
            f'the literals {LITS_R}. Not enumerated: (2,2) pairs involving the literals 2.5 and 1,000, and spaced renderings of '
            '2-node operands in pairs (they are covered as scalar/unary operands).')
        run.caps_hit.append(
            f'chains: a, b and c range over the <= 1-node texts over the literals {LITS_R} (24 texts each, all 16 operator '
            'pairs, three chain shapes) instead of c over all 80 <= 1-node texts (2.2 M chains, outside the budget).')
        run.caps_hit.append(
            'attached operands: every <= 1-node text (both spacings) attached in 3 contexts x every <= 1-node no-blank partner; '
            '2-node texts are attached only against 2 scalars and unary operators.')
