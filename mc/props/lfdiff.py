"""Second oracle of C07: the store driven through the model API - the observable outcome of every
depth-1 edit (printed text, tree signature, exception class) must not depend on the load factor."""
from __future__ import annotations

from autobean_refactor import models as M

from .. import core, docexp, docs, ops, store, tree
from .c05 import op_sig

LFS = (None, 2, 3)
KINDS = {'setnode', 'setval', 'seq', 'map', 'tokraw', 'tokval', 'spacing', 'claim', 'claimseq', 'numop'}


def outcome(text: str, mode: bool, op: list, lf):
    store.set_load_factor(lf)
    try:
        root = docs.try_parse(text, M.File, mode)
        if root is None:
            return ('rejected',)
        ap = ops.apply(root, op)
        if ap.result == 'unresolved':
            return ('unresolved',)
        try:
            printed = tree.pr(root)
            sig = core.h64(tree.signature(root))
            listed = ''.join(t.raw_text for t in root.token_store)
        except Exception as e:  # noqa
            return ('print-raises', type(e).__name__, str(e)[:80])
        nblocks = len(getattr(root.token_store, '_blocks', []))
        return (type(ap.exc).__name__ if ap.exc is not None else 'ok', printed, sig, listed == printed), nblocks
    finally:
        store.set_load_factor(None)


def run_case(case: dict) -> core.CaseResult:
    res = core.CaseResult()
    text, mode = case['text'], case.get('mode', True)
    root = docs.try_parse(text, M.File, mode)
    if root is None:
        res.outcomes['rejected'] += 1
        return res
    oplist = [case['op']] if 'op' in case else ops.enum_ops(root, case.get('level', 'basic'), KINDS)
    maxblocks = 0
    for op in oplist:
        outs = [outcome(text, mode, op, lf) for lf in LFS]
        res.transitions += len(LFS)
        base = outs[0][0] if isinstance(outs[0][0], tuple) else outs[0]
        for lf, o in zip(LFS[1:], outs[1:]):
            cur = o[0] if isinstance(o[0], tuple) else o
            if isinstance(o[0], tuple):
                maxblocks = max(maxblocks, o[1])
            if cur != base:
                res.fail(f'C07/document-outcome-depends-on-load-factor[{op_sig(op)}]',
                         f'{text!r} {op}: at the default load factor {str(base)[:300]}, at load factor {lf} {str(cur)[:300]}',
                         {'kind': 'lfdiff', 'text': text, 'mode': mode, 'op': op})
                return res
        res.outcomes[str(base[0]) if isinstance(base, tuple) else str(base)] += 1
    res.counters['max_blocks_at_small_load_factor'] = 0
    h = core.h64((text, mode))
    res.states.add(h)
    res.nontrivial.add(h)
    res.sample = {'text': text, 'ops': len(oplist), 'blocks_at_small_lf': maxblocks}
    return res


def add_to(run: core.Run) -> None:
    if run.tier == 'quick':
        items = docexp.corpus(docs.L_EDIT, 3, depth=1)
    else:
        items = docexp.corpus(docs.L_EDIT, 3, depth=1, modes=(True, False))
        for c in items:
            c['level'] = 'basic' if c['text'].count('\n') >= 3 else 'full'
    items += docexp.class_cases(1, level='basic')
    items = [dict(c, kind='lfdiff') for c in items]
    run.run_cases(run_case, items, 'load-factor differential through the model API', chunk=1)
    run.bounds['lf_differential'] = {'documents': len(items), 'load_factors': ['default', 2, 3]}
