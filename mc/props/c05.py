"""C05 - after any edit history the tree is still a valid syntax tree of its tokens."""
from __future__ import annotations

import copy

from autobean_refactor import models as M

from .. import core, docexp, docs, ops, tree

PROPERTY = 'C05'


class TreeOracle(docexp.Oracle):
    name = 'check_tree'
    kinds = None          # whole alphabet
    level = 'full'

    def start(self, root, case, res):
        for k, msg in tree.check_tree(root):
            res.fail(f'C05/parsed-tree-{k}', f'freshly parsed {case["text"]!r}: {msg}')

    def post(self, root, op, ap, pre, res, case):
        errs = tree.check_tree(root)
        if errs:
            k, msg = errs[0]
            res.fail(f'C05/{k}[{op_sig(op)}]',
                     f'{case["text"]!r} after {case["ops"]}: {msg}; printed {tree.safe_pr(root)!r}'
                     + (f' (call raised {type(ap.exc).__name__})' if ap.exc is not None else ''))
            return
        popped = ap.result
        if ap.exc is None and op[0] in ('seq', 'map') and op[3] == 'pop' and isinstance(popped, M.RawModel):
            st = popped.token_store
            if st is None:
                if isinstance(popped, M.RawTreeModel):
                    res.fail(f'C05/popped-without-store[{op_sig(op)}]', f'{case["text"]!r} {case["ops"]}: popped node has no store')
                return
            if st is root.token_store:
                res.fail(f'C05/popped-still-in-document[{op_sig(op)}]', f'{case["text"]!r} {case["ops"]}: popped node still lives in the document store')
                return
            if popped.first_token is not st.get_first() or popped.last_token is not st.get_last():
                res.fail(f'C05/popped-not-self-contained[{op_sig(op)}]',
                         f'{case["text"]!r} {case["ops"]}: popped node {tree.safe_pr(popped)!r} does not span its store '
                         f'{tree.store_text(st)!r}')
                return
            errs = tree.check_tree(popped)
            if errs:
                res.fail(f'C05/popped-{errs[0][0]}[{op_sig(op)}]', f'{case["text"]!r} {case["ops"]}: popped node: {errs[0][1]}')


def op_sig(op: list) -> str:
    """call-site part of a finding key: kind + attribute + method (no indices / values)"""
    if op[0] in ('seq', 'map'):
        return f'{op[2]}.{op[3]}'
    if op[0] in ('setnode', 'setval'):
        return f'{op[2]}='
    if op[0] == 'claim':
        return op[2]
    if op[0] == 'claimseq':
        return f'{op[2]}.{op[3]}'
    if op[0] == 'numop':
        return op[2]
    return op[0]


ORACLE = TreeOracle()
_edit_case = docexp.make_run_case(ORACLE)


def run_case(case: dict) -> core.CaseResult:
    if case.get('kind') == 'move':
        from . import moves
        return moves.run_case(case)
    ops_ = case.get('ops') or []
    if ops_ and all(op[0] in ('claim', 'claimseq', 'claimseq1') for op in ops_) and any(op[0] == 'claimseq1' or op[2] == 'auto_claim_comments' for op in ops_):
        from .. import claims
        r, _ = claims.run_claim_trace(case, {'tree'})
        return r
    return _edit_case(case)


def main(run: core.Run) -> None:
    tier = run.tier
    run.rule = ('every history up to the depth over the descriptor-derived edit alphabet (token value/raw_text, node and value '
                'setters, whole MutableSequence/Mapping API incl. negative / out-of-range / reversed / stepped arguments, spacing, '
                'claim/unclaim, in-place arithmetic) on every accepted document of the corpus; histories are deduplicated by '
                'canonical state; non-trivial = distinct canonical post-states that differ from the parsed state')
    run.assumptions = ['documents <= 3 lines over the 10-kind edit alphabet; donors from a fixed table',
                       'a history is not extended after a call that raised (C19 covers the state after a refusal)']
    if tier == 'quick':
        items = docexp.corpus(docs.L_EDIT, 2, depth=1, modes=(True, False))
        items += docexp.corpus(docs.L_EDIT, 3, nmin=3, depth=1, level='basic')
        d2 = docexp.corpus(docs.L_EDIT, 1, depth=2, level='basic')
        run.bounds.update({'depth1': 'docs <= 2 lines, both attribution modes, full argument menu; 3-line docs with in-range arguments',
                           'depth2': '1-line docs, in-range arguments'})
    else:
        items = docexp.corpus(docs.L_EDIT, 3, depth=1, modes=(True, False))
        d2 = docexp.corpus(docs.L_EDIT, 1, depth=2) + docexp.corpus(docs.L_EDIT, 2, nmin=2, depth=2, level='basic')
        run.bounds.update({'depth1': 'all docs <= 3 lines, both attribution modes', 'depth2': '1-line docs with the full argument menu, 2-line docs with in-range arguments'})
    items += docexp.class_cases(1, level=('basic' if tier == 'quick' else 'full'))
    run.bounds['class_corpus'] = 'one minimal and one full document per directive class (38 documents), depth 1'
    docexp.bfs(run, ORACLE, items, 'depth-1 corpus')
    minimal = ['2000-01-01 *\n', '2000-01-01 open Assets:Foo\n', '2000-01-01 note Assets:Foo "n"\n', '2000-01-01 custom "x"\n']
    if tier != 'quick':
        minimal += [t + '\n' for t in docs.L_CLASSES[::2] if '\n' not in t]
    d2 += [{'text': t, 'mode': True, 'depth': 2, 'level': 'basic'} for t in dict.fromkeys(minimal)]
    docexp.bfs(run, ORACLE, d2, 'depth-2 corpus')
    # histories of three steps confined to one repeated field and its aliasing views
    fc = docexp.focus_cases(3, 'basic', docexp.FOCUS_SUBJECTS[:1] if tier == 'quick' else None)
    docexp.bfs(run, ORACLE, fc, 'depth-3 single-field histories')
    run.bounds['depth3'] = f'{len(fc)} single-field subjects (one repeated field + its views), in-range arguments'
    # two-document histories: pop from one parse, insert into another
    from . import moves
    mv = [{'kind': 'move', 'text': c['text'], 'mode': c['mode']} for c in docexp.corpus(docs.L_EDIT, 2 if tier == 'quick' else 3, depth=1, modes=(True, False))]
    mv += [{'kind': 'move', 'text': c['text'], 'mode': True} for c in docexp.class_cases(1)]
    run.run_cases(run_case, mv, 'moves between two documents', chunk=4)
    run.bounds['moves'] = f'{len(mv)} documents: every element of every raw list popped from one parse and inserted at the start / middle / end of the same list of another parse'
    # comment-attribution calls to a fixpoint per document (this is where a placeholder left behind its items shows)
    from .. import claims
    n = 3 if tier == 'quick' else 4
    bfs_cases = claims.bfs_corpus(n, with_txn4=(tier == 'quick'))
    claims.claims_bfs(run, bfs_cases, {'tree'}, 'claim-call BFS (check_tree)')
