"""C06 - what the model says is what the printed text says (print -> parse -> structural comparison)."""
from __future__ import annotations

import re

from autobean_refactor import models as M
from autobean_refactor.models.internal import repeated as R

from .. import core, docexp, docs, ops, tree
from .c05 import op_sig

PROPERTY = 'C06'

# outside the contract of the statement: raw-text / spacing / indent overrides; the grammar-dead slot
# string0 ([NEVER] in beancount.lark)
EXCLUDED_ATTRS = {'raw_string0', 'string0', 'indent', 'raw_indent', 'indent_by'}


class ReparseOracle(docexp.Oracle):
    name = 'reparse'
    kinds = {'setnode', 'setval', 'seq', 'map', 'tokval', 'numop'}
    level = 'full'

    def model_filter(self, path, m):
        # token values: only through tokens that are leaves of the tree; Indent values are indent overrides
        return not isinstance(m, (M.Indent, M.Whitespace, M.Newline, M.BlockComment))

    def op_filter(self, root, op):
        if op[0] in ('setnode', 'setval', 'seq', 'map') and op[2] in EXCLUDED_ATTRS:
            return False
        return True

    def pre(self, root, op):
        number_values(root)       # reads before the edit: a memoised value must not survive it
        model_values(root, op)
        return tree.glued_pairs(root.token_store)

    def post(self, root, op, ap, pre, res, case):
        text = tree.pr(root)
        where = f'{case["text"]!r} after {case["ops"]}: printed {text!r}: '
        sig = op_sig(op)
        if custom_ambiguity(root):
            res.counters['skipped: documented custom ambiguity (unary-led number after a number)'] += 1
            return
        again = docs.try_parse(text, M.File, True)
        glued = tree.newly_glued(pre, root.token_store) if pre is not None else []
        if glued and (again is None or tree.cmp_signature(root) != tree.cmp_signature(again)):
            # known finding F22: identified by what the edit did to the token sequence, not by the call site
            a, b = glued[0]
            res.fail('C06/removal-leaves-two-surviving-tokens-touching',
                     where + f'the edit removed everything between {a!r} and {b!r}, which were apart in the input; they now lex differently')
            return
        if again is None:
            if COL0_COMMENT_INSIDE_BLOCK.search(text):
                # known finding F17: identified by the structural feature of the *document*
                res.fail('C06/col0-comment-line-inside-indented-block-not-reparsed',
                         where + 'a column-0 comment line between two indented lines ends the block for the lexer')
                return
            res.fail(f'C06/printed-document-does-not-parse[{sig}]', where + 'rejected by the parser'
                     + (f' (the call raised {type(ap.exc).__name__})' if ap.exc is not None else ''))
            return
        a, b = tree.cmp_signature(root), tree.cmp_signature(again)
        if a != b:
            res.fail(f'C06/reparsed-structure-differs[{sig}]', where + f'in-memory {diff(a, b)}')
            return
        va, vb = number_values(root), number_values(again)
        if va != vb:
            k = next((i for i, (x, y) in enumerate(zip(va, vb)) if x != y), min(len(va), len(vb)))
            res.fail(f'C06/number-value-differs-from-printed-text[{sig}]', where + f'number expression #{k}: the model says '
                     f'{va[k] if k < len(va) else None}, the re-parsed text {vb[k] if k < len(vb) else None}')
            return
        ma, mb = model_values(root, op), model_values(again, op)
        for key, va_ in ma.items():
            vb_ = mb.get(key)
            if vb_ is not None and va_ != vb_:
                name = next((n for n in va_ if va_[n] != vb_.get(n)), '?')
                res.fail(f'C06/value-property-differs-from-printed-text[{sig}]', where + f'{key[1]} at {"/".join(key[0])}: {name} reads '
                         f'{va_.get(name)} in memory, {vb_.get(name)} after re-parse')
                return
        ca, cb = tree.comment_lines(root.token_store), tree.comment_lines(again.token_store)
        if ca != cb:
            res.fail(f'C06/comments-differ[{sig}]', where + f'comments in memory {ca} vs re-parsed {cb}')


COL0_COMMENT_INSIDE_BLOCK = re.compile(r'(?m)^[ \t]+[^ \t\r\n][^\n]*\n(;[^\n]*\n)+[ \t]+[^ \t\r\n]')


def model_values(root, op=None) -> dict:
    """(path, class, printed text) -> value properties, for every model whose path, class and text identify it in both
    the in-memory and the re-parsed document (comment properties and indent_by are attribution / layout, not content)"""
    from . import c09
    out = {}
    focus = tuple(op[1]) if op is not None and not (op[1] and op[1][0] == '@') else None
    for path, m in tree.walk(root):
        if isinstance(m, (M.RawTokenModel, R.Repeated)):
            continue
        if focus is not None and path[:len(focus)] != focus and focus[:len(path)] != path:
            continue           # only the edited model, what is inside it and what it is inside of
        # string0/1/2 are the positional storage of payee / narration (a lone string is the narration): compared folded by
        # cmp_signature, and through the proper setters by C09's group exploration
        vals = {n: v for n, v in c09.read_all(m).items() if n not in c09.COMMENT_PROPS and
                n not in ('indent_by', 'inline_comment', 'string0', 'string1', 'string2', 'payee', 'narration')}
        if vals:
            out[(path, type(m).__name__, tree.pr(m))] = vals
    return out


def number_values(root) -> list:
    """(text, value or exception class) of every number expression node, in document order"""
    out = []
    for _, m in tree.walk(root):
        if isinstance(m, (M.NumberExpr, M.NumberAddExpr, M.NumberMulExpr, M.NumberParenExpr, M.NumberUnaryExpr)):
            try:
                v = str(m.value)
            except Exception as e:  # noqa
                v = type(e).__name__
            out.append((type(m).__name__, tree.pr(m), v))
    return out


def custom_ambiguity(root) -> bool:
    for _, m in tree.walk(root):
        if isinstance(m, M.Custom):
            prev = None
            for v in m.raw_values:
                num = v.raw_number if isinstance(v, M.Amount) else v if isinstance(v, M.NumberExpr) else None
                if isinstance(prev, (M.NumberExpr,)) and num is not None:
                    first = num.raw_number_add_expr.raw_operands[0].raw_operands[0]
                    if isinstance(first, M.NumberUnaryExpr):
                        return True
                prev = v
    return False


def diff(a, b, path='') -> str:
    """first difference between two signatures"""
    if a == b:
        return ''
    if isinstance(a, tuple) and isinstance(b, tuple) and len(a) == 2 and len(b) == 2 and a[0] == b[0] \
            and isinstance(a[1], tuple) and isinstance(b[1], tuple):
        ka, kb = a[1], b[1]
        for x, y in zip(ka, kb):
            if x != y:
                if isinstance(x, tuple) and isinstance(y, tuple) and len(x) == 2 and len(y) == 2 and x[0] == y[0]:
                    return diff(x[1], y[1], f'{path}/{a[0]}.{x[0]}')
                return f'{path}/{a[0]}: {x!r} vs re-parsed {y!r}'
        return f'{path}/{a[0]}: {len(ka)} children vs re-parsed {len(kb)}: {ka[len(kb):]!r} / {kb[len(ka):]!r}'
    return f'{path}: {a!r} vs re-parsed {b!r}'


ORACLE = ReparseOracle()
run_case = docexp.make_run_case(ORACLE)


def main(run: core.Run) -> None:
    tier = run.tier
    run.rule = ('every history up to the depth over the syntax-preserving alphabet (node/value setters, whole sequence/mapping '
                'API with donors carrying a fitting indent, in-domain token values, in-place arithmetic) on every default-parsed '
                'corpus document; oracle: parse(print(doc)) succeeds and has the same comparison signature and comment lines; '
                'non-trivial = distinct canonical post-states')
    run.assumptions = ['excluded by the statement: raw_text / spacing / indent overrides; excluded as grammar-dead: string0',
                       'block-comment attribution, zero-width marks, trailing blanks of inline comments and indent_by are not compared']
    if tier == 'quick':
        items = docexp.corpus(docs.L_EDIT, 2, depth=1) + docexp.corpus(docs.L_EDIT, 3, nmin=3, depth=1, level='basic')
        d2 = docexp.corpus(docs.L_EDIT, 1, depth=2, level='basic')
        run.bounds.update({'depth1': 'docs <= 2 lines with the full argument menu, 3-line docs with in-range arguments',
                           'depth2': '1-line docs, in-range arguments'})
    else:
        run.bounds.update({'depth1': 'docs <= 3 lines, full argument menu', 'depth2': '1-line docs with the full argument menu, 2-line docs with in-range arguments'})
        items = docexp.corpus(docs.L_EDIT, 3, depth=1)
        d2 = docexp.corpus(docs.L_EDIT, 1, depth=2) + docexp.corpus(docs.L_EDIT, 2, nmin=2, depth=2, level='basic')
    items += docexp.class_cases(1, level=('basic' if tier == 'quick' else 'full'))
    run.bounds['class_corpus'] = 'one minimal and one full document per directive class (38 documents), depth 1'
    docexp.bfs(run, ORACLE, items, 'depth-1 corpus')
    minimal = ['2000-01-01 *\n', '2000-01-01 open Assets:Foo\n']
    if tier != 'quick':
        minimal += [t + '\n' for t in docs.L_CLASSES[::2] if '\n' not in t]
    d2 += [{'text': t, 'mode': True, 'depth': 2, 'level': 'basic'} for t in dict.fromkeys(minimal)]
    docexp.bfs(run, ORACLE, d2, 'depth-2 corpus')
    # histories of three steps confined to one repeated field and its aliasing views
    fc = docexp.focus_cases(3, 'basic', None) if tier != 'quick' else []       # (quick: C03 and C05 run the three-step histories)
    docexp.bfs(run, ORACLE, fc, 'depth-3 single-field histories')
    run.bounds['depth3'] = f'{len(fc)} single-field subjects (one repeated field + its views), in-range arguments'
