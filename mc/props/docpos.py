"""Document-level part of C08: positions after token assignments and after structural edits."""
from __future__ import annotations

from .. import core, docexp, docs, tree
from . import tokedit
from .c05 import op_sig

TOKEN_ORACLE = tokedit.TokenOracle({'pos'})
_token_case = tokedit.make_run_case(TOKEN_ORACLE)


class StructPos(docexp.Oracle):
    name = 'positions-after-structural-edit'
    kinds = {'setnode', 'setval', 'seq', 'map', 'spacing', 'claim', 'claimseq'}
    level = 'basic'

    def start(self, root, case, res):
        tokedit.check_positions(root, res, f'freshly parsed {case["text"]!r}: ', 'parse')

    def post(self, root, op, ap, pre, res, case):
        tokedit.check_positions(root, res, f'{case["text"]!r} after {case["ops"]}: ', op_sig(op))


STRUCT = StructPos()
_struct_case = docexp.make_run_case(STRUCT)


def run_case(case: dict) -> core.CaseResult:
    case = dict(case)
    which = case.pop('which', 'token')
    case.pop('kind', None)
    r = _token_case(case) if which == 'token' else _struct_case(case)
    for i, (k, t, sub) in enumerate(r.violations):
        if sub is not None:
            sub = dict(sub, kind='doc', which=which)
        r.violations[i] = (k, t, sub)
    return r


def add_to(run: core.Run) -> None:
    tier = run.tier
    items = [dict(c, kind='doc', which='token') for c in tokedit.corpus(tier)]
    run.run_cases(run_case, items, 'document level: token value/raw_text assignments', chunk=2)
    if tier == 'quick':
        st = docexp.corpus(docs.L_EDIT, 2, depth=1) + docexp.corpus(docs.L_EDIT, 2, depth=1, lf=3)
    else:
        st = docexp.corpus(docs.L_EDIT, 3, depth=1) + docexp.corpus(docs.L_EDIT, 2, depth=1, lf=3) + \
            docexp.corpus(docs.L_EDIT, 2, depth=1, lf=2)
    st = [dict(c, kind='doc', which='struct') for c in st]
    run.run_cases(run_case, st, 'document level: structural edits', chunk=1)
    run.bounds['document_level'] = {'token_assignment_docs': len(items), 'structural_docs': len(st)}
