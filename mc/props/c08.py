"""C08 - reported line/column positions always match the printed text.

Part 1 (E-STORE, 'pos' oracle): the C07 state space with newline-bearing / multi-line / empty tokens and
`update` (raw_text assignment) transitions; after every transition every token's get_position and
get_index are compared with values recomputed from the concatenated text.
Part 2 (document level) lives in mc/props/docpos.py and is added when available.
"""
from __future__ import annotations

from .. import core, store

PROPERTY = 'C08'


def cfg_for(lf: int, tier: str) -> dict:
    cap = {2: 6, 3: 6, 4: 7}.get(lf, 2 * lf)      # (7 token classes: one more token multiplies the space by ~7)
    if tier == 'quick':
        cap = {2: 5, 3: 5}.get(lf, cap)
    return {
        'lf': lf, 'cap': cap, 'maxins': min(cap, lf + 1), 'nl_classes': ['n', 'm'],
        'maxnl': 1 if lf >= 4 else 2, 'oracles': ['pos'], 'update': True, 'update_classes': ['x', 'n', 'm', 'e', 'k', 'j', 'f'], 'empty': True,
    }


def run_case(case: dict) -> core.CaseResult:
    if case.get('kind') == 'doc':
        from . import docpos
        return docpos.run_case(case)
    case = dict(case)
    case.pop('probe', None)
    return store.run_case(case)


def main(run: core.Run) -> None:
    tier = run.tier
    lfs = [2, 3] if tier == 'quick' else [2, 3, 4]
    run.rule = ('fixpoint BFS over the real TokenStore with token classes x / "\\n" / "a\\nbc" / "" / "a\\n\\nb" (the last one only through updates): transition = one '
                'splice/insert/remove/replace/re-insertion or one raw_text update of one token; non-trivial = distinct '
                'canonical post-states that differ from their pre-state; oracle = (line, column, ordinal) of every token recomputed from the '
                'concatenated text')
    run.assumptions = [
        'token texts abstracted to 4 classes that cover: no newline, only newline, newline followed by text, empty',
        'at most 2 newline-bearing tokens per store in the store-level exploration',
    ]
    for lf in lfs:
        store.explore(run, cfg_for(lf, tier))
        if run.total.violations:
            break
    try:
        from . import docpos
    except ImportError:
        return
    docpos.add_to(run)
