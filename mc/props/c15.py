"""C15 - constructed models are well-formed and parse back to the same content (E-CTOR).

Signature-driven exhaustive enumeration of every `from_value` / `from_children` classmethod of the tree
models: parameter domains come from the table in c15_domains (keyed by annotation kind and parameter
name); every argument object is built afresh for every call.

A case is  {'k': 'Class.ctor', 'ix': [domain index per parameter]}            (compact, used by main)
       or  {'k': 'Class.ctor', 'args': {parameter: encoded value}}             (explicit, stored in replays)
       or  {'file': [element, ...], 'ctor': 'from_children'|'from_value'}      element = {'k','ix'|'args'} | ['bc', text]
"""
from __future__ import annotations

import itertools
import math
import typing
from typing import Any, Optional

from autobean_refactor import models as M

from .. import core, docs, tree
from . import c15_domains as dm

PROPERTY = 'C15'

CTORS = ('from_value', 'from_children')


def _directive_classes() -> tuple:
    """the members of the Directive union, read off File.from_value's signature"""
    ann = typing.get_type_hints(M.File.from_value)['directives']
    (union,) = typing.get_args(ann)
    return tuple(typing.get_args(union))


DIRECTIVE_CLASSES = _directive_classes()

# documented rejections: (Class.ctor, exception type, message fragment)
DOCUMENTED_REJECTIONS = [
    ('CostSpec.from_value', ValueError, 'Cannot set both number_per and number_total without a currency'),
]


# ------------------------------------------------------------------------------------------------
# constructors and their domains

_CTOR_CACHE: dict[str, tuple[type, str, list[str], list[list]]] = {}


def ctor_info(key: str) -> tuple[type, str, list[str], list[list]]:
    got = _CTOR_CACHE.get(key)
    if got is None:
        cname, ctor = key.split('.')
        cls = dm.model_class(cname)
        kinds = dm.signature_kinds(cls, ctor)
        names = [n for n, _, _ in kinds]
        doms = [dm.domain(cls, ctor, n, k) for n, k, _ in kinds]
        got = (cls, ctor, names, doms)
        _CTOR_CACHE[key] = got
    return got


def all_ctor_keys() -> list[str]:
    out = []
    for cls in M.TREE_MODELS.values():
        if cls is M.File:
            continue
        for ctor in CTORS:
            if hasattr(cls, ctor):
                out.append(f'{cls.__name__}.{ctor}')
    return out


def explicit_args(case: dict) -> dict:
    if 'args' in case:
        return case['args']
    _, _, names, doms = ctor_info(case['k'])
    return {n: d[i] for n, d, i in zip(names, doms, case['ix'])}


def in_domain(key: str, args: dict) -> bool:
    """joint constraints between parameters that the per-parameter domains cannot express"""
    if key in ('NumberAddExpr.from_children', 'NumberMulExpr.from_children'):
        return len(args['ops'][1]) == len(args['operands'][1]) - 1
    return True


# ------------------------------------------------------------------------------------------------
# oracle pieces

def _norm_value(v: Any) -> Any:
    """what a value property is expected to read for a given (fresh) argument"""
    if isinstance(v, (M.EscapedString, M.Date, M.Bool, M.NumberExpr)):
        return v.value
    if isinstance(v, M.Amount):      # a constructor may legitimately wrap the number in parentheses (custom values)
        return ('Amount', v.number, v.currency)
    if isinstance(v, M.RawModel):
        return ('model', tree.cmp_signature(v))
    if isinstance(v, (list, tuple)):
        return [_norm_value(x) for x in v]
    if isinstance(v, dict):
        return [(k, _norm_value(x)) for k, x in v.items()]
    return v


def _read_back(parsed: Any, name: str) -> Any:
    got = getattr(parsed, name)
    if name == 'meta':
        return [(k, _norm_value(v)) for k, v in got.items()]
    if isinstance(got, (str, bytes)) or got is None:
        return got
    if isinstance(got, M.RawModel):
        return _norm_value(got)
    try:
        it = list(got)
    except TypeError:
        return got
    return [_norm_value(x) for x in it]


_NO_READBACK = {'indent_by', 'postings', 'directives'}


def expected_values(key: str, args: dict) -> dict:
    """what each value property is expected to read, from a fresh decode of the arguments"""
    cls, ctor, names, _ = ctor_info(key)
    ctx = dm.call_ctx(args, dm.TOP_CTX) if ('indent' in args or 'indent_by' in args) else dm.TOP_CTX
    out = {}
    for name in names:
        if name in _NO_READBACK or name not in args or not hasattr(cls, name):
            continue
        expected = _norm_value(dm.decode(args[name], ctx))
        if name == 'meta' and expected is None:
            expected = []
        if name == 'narration' and expected is None and args.get('payee') is not None and cls is M.Transaction:
            expected = ''     # by design: a payee needs a narration
        out[name] = expected
    return out


def check_values(key: str, expected: dict, parsed: Any, res: core.CaseResult, where: str, mini: dict) -> None:
    """from_value took plain values: the model's value properties read them back"""
    for name, exp in expected.items():
        try:
            got = _read_back(parsed, name)
        except Exception as e:  # noqa
            res.fail(f'C15/value-readback-raises[{name}]',
                     f'{key}: reading .{name} of the {where} raises {type(e).__name__}: {e}', mini)
            continue
        res.transitions += 1
        if got != exp:
            res.fail(f'C15/value-readback[{name}]',
                     f'{key}: given {name}={exp!r}, the {where} reads {got!r} (text {tree.pr(parsed)!r})', mini)


def check_same_values(key: str, m: Any, parsed: Any, res: core.CaseResult, mini: dict) -> None:
    """from_children took models: every value property named after a from_value parameter (and .value) reads the
    same on the parsed model as on the constructed one"""
    cls = type(m)
    names = ['value'] if isinstance(getattr(cls, 'value', None), property) else []
    if hasattr(cls, 'from_value'):
        # leading/trailing comments are left out: with comment items among the children their attribution is not
        # determined by the text (the comment lines themselves are compared in document order by judge_model)
        names += [n for n in ctor_info(f'{cls.__name__}.from_value')[2]
                  if n not in _NO_READBACK and n not in ('leading_comment', 'trailing_comment') and hasattr(cls, n)]
    for name in names:
        try:
            a, b = _read_back(parsed, name), _read_back(m, name)
        except Exception as e:  # noqa
            res.fail(f'C15/value-readback-raises[{name}]', f'{key}: reading .{name} raises {type(e).__name__}: {e}', mini)
            continue
        res.transitions += 1
        if a != b:
            res.fail(f'C15/values-differ[{name}]', f'{key}: .{name} reads {b!r} on the constructed model and {a!r} on the '
                     f'parsed one (text {tree.pr(m)!r})', mini)


def parse_as(text: str, cls: type) -> Any:
    """parse(text, cls); the two number classes that are not parse targets of their own are embedded in a
    NumberExpr (the lexer feeds an EOL that only line-level or INLINE targets accept)."""
    if cls is M.NumberAddExpr:
        return docs.P().parse(text, M.NumberExpr).raw_number_add_expr
    if cls is M.NumberMulExpr:
        add = docs.P().parse(text, M.NumberExpr).raw_number_add_expr
        if len(add.raw_operands) != 1:
            raise ValueError(f'{text!r} is not a single product')
        return add.raw_operands[0]
    return docs.P().parse(text, cls)


def judge_model(key: str, m: Any, res: core.CaseResult, mini: dict, *, what: str = '') -> Optional[Any]:
    """check_tree, print, parse back, compare. Returns the parsed model or None."""
    cls = type(m)
    site = key
    errs = tree.check_tree(m)
    res.transitions += 1
    if errs:
        k, msg = errs[0]
        res.fail(f'C15/tree-{k}[{site}]', f'{what or key}: {msg}', mini)
        return None
    try:
        text = tree.pr(m)
    except Exception as e:  # noqa
        res.fail(f'C15/print-raises[{site}]', f'{what or key}: print raises {type(e).__name__}: {e}', mini)
        return None
    whole = tree.store_text(m.token_store)
    if whole != text:
        res.fail(f'C15/store-has-text-outside-model[{site}]',
                 f'{what or key}: model prints {text!r} but its store holds {whole!r}', mini)
        return None
    try:
        parsed = parse_as(text, cls)
    except Exception as e:  # noqa
        res.fail(f'C15/printed-text-rejected[{site}]',
                 f'{what or key}: parse({text!r}, {cls.__name__}) raises {type(e).__name__}: {str(e)[:160]}', mini)
        return None
    res.transitions += 1
    a, b = tree.cmp_signature(parsed), tree.cmp_signature(m)
    if a != b:
        res.fail(f'C15/parsed-differs[{site}]',
                 f'{what or key}: {text!r} parses to a different tree: parsed {_first_diff(a, b)}', mini)
        return None
    ca, cb = tree.comment_lines(parsed.token_store), tree.comment_lines(m.token_store)
    if ca != cb:
        res.fail(f'C15/comments-differ[{site}]', f'{what or key}: {text!r}: comments parsed {ca!r}, constructed {cb!r}', mini)
        return None
    return parsed


def _first_diff(a: Any, b: Any, path: str = '') -> str:
    if type(a) is not type(b) or not isinstance(a, tuple):
        return f'{path}: {a!r} vs constructed {b!r}'[:400]
    if len(a) != len(b):
        return f'{path}: {len(a)} vs {len(b)} entries: {a!r} vs constructed {b!r}'[:400]
    for i, (x, y) in enumerate(zip(a, b)):
        if x != y:
            return _first_diff(x, y, f'{path}/{x[0] if isinstance(x, tuple) and x and isinstance(x[0], str) else i}')
    return 'equal'


def _rejected_as_documented(key: str, e: BaseException) -> bool:
    for k, et, frag in DOCUMENTED_REJECTIONS:
        if k == key and isinstance(e, et) and frag in str(e):
            return True
    return False


def build(key: str, args: dict) -> Any:
    cls, ctor, _, _ = ctor_info(key)
    return dm.build_call(cls, ctor, args)


# ------------------------------------------------------------------------------------------------
# run_case

def run_ctor_case(case: dict, res: core.CaseResult) -> None:
    key = case['k']
    cls, ctor, names, doms = ctor_info(key)
    args = explicit_args(case)
    mini = {'k': key, 'args': args}
    if not in_domain(key, args):
        res.outcomes[f'skipped: joint argument constraint[{key}]'] += 1
        return
    res.transitions += 1
    try:
        m = build(key, args)
    except Exception as e:  # noqa
        if _rejected_as_documented(key, e):
            res.outcomes[f'documented rejection[{key}]'] += 1
            res.states.add(core.h64((key, 'rejected', repr(sorted(args.items(), key=lambda kv: kv[0])))))
            return
        res.fail(f'C15/constructor-raises[{key}]', f'{key}(**{_short(args)}) raises {type(e).__name__}: {str(e)[:200]}', mini)
        return
    if not isinstance(m, cls):
        res.fail(f'C15/constructor-returns-other-class[{key}]', f'{key} returned {type(m).__name__}', mini)
        return
    parsed = judge_model(key, m, res, mini)
    if parsed is None:
        return
    text = tree.pr(m)
    expected = expected_values(key, args) if ctor == 'from_value' else {}
    if ctor == 'from_value':
        check_values(key, expected, parsed, res, 'parsed model', mini)
        check_values(key, expected, m, res, 'constructed model', mini)
    else:
        check_same_values(key, m, parsed, res, mini)
    hk = core.h64((key, text))
    res.states.add(hk)
    if 'ix' not in case or any(case['ix']):
        res.nontrivial.add(hk)
    res.outcomes[f'parses back equal[{key}]'] += 1
    res.sample = {'constructor': key, 'printed': text}
    # the same inside a file
    if issubclass(cls, DIRECTIVE_CLASSES):
        m2 = build(key, args)
        res.transitions += 1
        try:
            f = M.File.from_children([m2])
        except Exception as e:  # noqa
            res.fail(f'C15/file-constructor-raises[{key}]', f'File.from_children([{key}(**{_short(args)})]) raises '
                     f'{type(e).__name__}: {str(e)[:200]}', mini)
            return
        pf = judge_file(f, res, mini, f'File.from_children([{key}])', site=key)
        if pf is not None:
            ds = list(pf.directives)
            if len(ds) != 1 or type(ds[0]) is not cls:
                res.fail(f'C15/in-file-directives[{key}]', f'file of one {cls.__name__} parses to directives {ds!r}', mini)
            elif ctor == 'from_value':
                check_values(key, expected, ds[0], res, 'directive parsed inside a file', mini)


def judge_file(f: Any, res: core.CaseResult, mini: dict, what: str, *, site: str) -> Optional[Any]:
    errs = tree.check_tree(f)
    res.transitions += 1
    if errs:
        k, msg = errs[0]
        res.fail(f'C15/in-file-tree-{k}[{site}]', f'{what}: {msg}', mini)
        return None
    text = tree.pr(f)
    whole = tree.store_text(f.token_store)
    if whole != text:
        res.fail(f'C15/in-file-store-has-text-outside-model[{site}]', f'{what}: prints {text!r}, store holds {whole!r}', mini)
        return None
    try:
        pf = docs.P().parse(text, M.File)
    except Exception as e:  # noqa
        res.fail(f'C15/in-file-printed-text-rejected[{site}]',
                 f'{what}: parse({text!r}, File) raises {type(e).__name__}: {str(e)[:160]}', mini)
        return None
    res.transitions += 1
    a, b = tree.cmp_signature(pf), tree.cmp_signature(f)
    if a != b:
        res.fail(f'C15/in-file-parsed-differs[{site}]', f'{what}: {text!r} parses to a different tree: parsed '
                 f'{_first_diff(a, b)}', mini)
        return None
    ca, cb = tree.comment_lines(pf.token_store), tree.comment_lines(f.token_store)
    if ca != cb:
        res.fail(f'C15/in-file-comments-differ[{site}]', f'{what}: {text!r}: comments parsed {ca!r}, constructed {cb!r}', mini)
        return None
    return pf


def _short(args: dict) -> str:
    s = repr(args)
    return s if len(s) < 600 else s[:600] + '...'


def run_file_case(case: dict, res: core.CaseResult) -> None:
    elems = case['file']
    fctor = case.get('ctor', 'from_children')
    mini_elems = []
    objs = []
    classes = []
    label = []
    for el in elems:
        if isinstance(el, list):      # ['bc', text]
            mini_elems.append(el)
            objs.append(M.BlockComment.from_value(el[1]))
            label.append('BlockComment')
            continue
        args = explicit_args(el)
        mini_elems.append({'k': el['k'], 'args': args})
        objs.append(build(el['k'], args))
        classes.append(ctor_info(el['k'])[0])
        label.append(el['k'])
    mini = {'file': mini_elems, 'ctor': fctor}
    what = f'File.{fctor}([{", ".join(label)}])'
    res.transitions += 1
    try:
        f = getattr(M.File, fctor)(objs)
    except Exception as e:  # noqa
        res.fail(f'C15/constructor-raises[File.{fctor}]', f'{what} raises {type(e).__name__}: {str(e)[:200]}', mini)
        return
    pf = judge_file(f, res, mini, what, site=f'File.{fctor}')
    if pf is None:
        return
    got = [type(d) for d in pf.directives]
    if got != classes:
        res.fail(f'C15/in-file-directives[File.{fctor}]', f'{what}: parsed directives {[c.__name__ for c in got]}', mini)
        return
    text = tree.pr(f)
    hk = core.h64(('file', text))
    res.states.add(hk)
    if len(elems) > 0:
        res.nontrivial.add(hk)
    res.outcomes[f'file of {len(elems)} parses back equal[File.{fctor}]'] += 1
    res.sample = {'constructor': what, 'printed': text}


def run_case(case: dict) -> core.CaseResult:
    res = core.CaseResult()
    if 'file' in case:
        run_file_case(case, res)
    else:
        run_ctor_case(case, res)
    return res


# ------------------------------------------------------------------------------------------------
# enumeration

def rows_for(sizes: list[int], full_limit: int, strength: int, corner_limit: int = 1 << 13) -> tuple[str, list[tuple]]:
    n = math.prod(sizes)
    k = len(sizes)
    if n <= full_limit:
        return 'full', list(itertools.product(*[range(s) for s in sizes]))
    lo = tuple(0 for _ in sizes)
    hi = tuple(s - 1 for s in sizes)
    rows: set[tuple] = set()
    for base in (lo, hi):
        for t in range(0, strength + 1):
            for idx in itertools.combinations(range(k), t):
                for vals in itertools.product(*[range(sizes[i]) for i in idx]):
                    row = list(base)
                    for i, v in zip(idx, vals):
                        row[i] = v
                    rows.add(tuple(row))
    if (1 << k) <= corner_limit:      # every subset of parameters at its richest value, the rest at the simplest
        for bits in itertools.product((0, 1), repeat=k):
            rows.add(tuple(hi[i] if b else 0 for i, b in enumerate(bits)))
    return f'{strength}-wise', sorted(rows)


def file_elements() -> list[Any]:
    """per directive class the all-absent and the all-present row of its richest constructor, plus comments"""
    els: list[Any] = []
    for cls in DIRECTIVE_CLASSES:
        ctor = 'from_value' if hasattr(cls, 'from_value') else 'from_children'
        key = f'{cls.__name__}.{ctor}'
        _, _, names, doms = ctor_info(key)
        els.append({'k': key, 'ix': [0] * len(doms)})
        els.append({'k': key, 'ix': [len(d) - 1 for d in doms]})
    els.append(['bc', 'c'])
    els.append(['bc', 'c\nd'])
    return els


def main(run: core.Run) -> None:
    quick = run.tier == 'quick'
    full_limit = 3000 if quick else 20000
    strength = 2 if quick else 3
    # hand-written constructors with logic of their own get one more level of interaction in the thorough tier
    extra_strength = {} if quick else {k: 4 for k in ('Transaction.from_value', 'Transaction.from_children',
                                                       'Custom.from_value', 'Custom.from_children')}
    keys = all_ctor_keys()
    items: list[dict] = []
    covered: dict[str, str] = {}
    unresolved = []
    for key in keys:
        cls, ctor, names, doms = ctor_info(key)
        unresolved += [f'{key}({n})' for n, _, ok in dm.signature_kinds(cls, ctor) if not ok]
        sizes = [len(d) for d in doms]
        how, rows = rows_for(sizes, full_limit, extra_strength.get(key, strength))
        covered[key] = f'{how}: {len(rows)} of {math.prod(sizes)} rows, domain sizes {dict(zip(names, sizes))}'
        items += [{'k': key, 'ix': list(r)} for r in rows]
    run.log(f'{len(keys)} constructors, {len(items)} argument rows '
            f'({sum(1 for v in covered.values() if v.startswith("full"))} constructors in full)')
    # interleave cheap and expensive constructors over the chunks handed to the worker processes
    stride = 251
    items = [items[j] for i in range(stride) for j in range(i, len(items), stride)]
    run.run_cases(run_case, items, 'constructor rows', chunk=250)

    els = file_elements()
    fitems: list[dict] = [{'file': [], 'ctor': c} for c in CTORS]
    dir_els = [e for e in els if isinstance(e, dict)]
    for a, b in itertools.product(els, repeat=2):
        fitems.append({'file': [a, b], 'ctor': 'from_children'})
    for a, b in itertools.product(dir_els, repeat=2):
        fitems.append({'file': [a, b], 'ctor': 'from_value'})
    # comment items around and between directives
    cm = ['bc', 'c']
    trip = dir_els if not quick else dir_els[::2]
    for a, b in itertools.product(trip, repeat=2):
        fitems.append({'file': [a, cm, b], 'ctor': 'from_children'})
    for a in dir_els:
        fitems.append({'file': [cm, a, cm], 'ctor': 'from_children'})
        fitems.append({'file': [cm, cm, a], 'ctor': 'from_children'})
    run.run_cases(run_case, fitems, 'files of constructed directives', chunk=100)

    run.rule = ('for every tree model class, from_value and from_children are called with every row of the product of '
                'per-parameter domains (table keyed by annotation kind and parameter name, ordered absent/simplest .. '
                'richest) when the product is within the limit, else with all t-wise value combinations laid over the '
                'all-absent and the all-present row plus every subset of parameters at its richest value; every argument '
                'object is built afresh; files are assembled from ordered pairs (and comment-separated triples) of the '
                'all-absent/all-present rows of the 20 directive classes and comment items; non-trivial = distinct '
                'printed texts of rows other than the all-absent row')
    run.bounds.update({
        'constructors': len(keys),
        'full_product_limit': full_limit,
        'interaction_strength_above_limit': strength,
        'interaction_strength_overrides': extra_strength,
        'coverage_per_constructor': covered,
        'covered_in_full': sorted(k for k, v in covered.items() if v.startswith('full')),
        'covered_t_wise': sorted(k for k, v in covered.items() if not v.startswith('full')),
        'file_elements': len(els),
        'file_cases': len(fitems),
        'type_hints_resolved_by_parameter_name': unresolved,
    })
    no_prop = []
    for key in keys:
        cls, ctor, names, _ = ctor_info(key)
        if ctor == 'from_value':
            no_prop += [f'{key}({n})' for n in names if n not in _NO_READBACK and not hasattr(cls, n)]
    run.bounds['from_value_parameters_without_value_property'] = no_prop
    twise = [k for k, v in covered.items() if not v.startswith('full')]
    if twise:
        run.caps_hit.append(f'the full argument product exceeds {full_limit} rows for {len(twise)} constructors '
                            f'({", ".join(twise)}); these are covered t-wise (all value combinations of every t parameters '
                            'over the all-absent and the all-present row, plus every subset of parameters at its richest '
                            'value) instead of in full')
    run.assumptions = [
        'in-domain arguments: values from the per-role domains of c15_domains.TABLE; indentation of comment and meta '
        'children handed to from_children follows the indent/indent_by arguments of the same call',
        'Transaction.from_children(payee, narration=None) inserts narration "" by design; string0 is grammar-dead and never passed',
        'CostSpec.from_value with number_per and number_total but no currency is a documented rejection (counted)',
        'NumberAddExpr and NumberMulExpr are not parse targets of their own; their printed text is parsed as NumberExpr '
        'and the corresponding sub-tree compared',
        'comparison ignores block-comment attribution (comment lines are compared in document order instead), zero-width '
        'marks and data fields (indent_by)',
    ]
