"""C07 - the token store behaves exactly like a plain ordered sequence (E-STORE, 'seq' oracle)."""
from __future__ import annotations

from .. import core, store

PROPERTY = 'C07'


def cfg_for(lf: int, tier: str) -> dict:
    cap = {2: 8, 3: 10, 4: 12, 5: 13, 7: 14}.get(lf, 3 * lf)
    if tier == 'quick':
        cap = {2: 7, 3: 9, 4: 10}.get(lf, cap)
    return {
        'lf': lf, 'cap': cap, 'maxins': min(cap, 2 * lf + 1), 'nl_classes': ['n'],
        'maxnl': 1 if tier == 'quick' else 2, 'oracles': ['seq'], 'update': False, 'empty': False,
    }


def boundary_band_cases(tier: str) -> list[dict]:
    """Real load factor: stores whose length and splice coordinates sit at the literal thresholds."""
    store.set_load_factor(None)
    from autobean_refactor import token_store as TS
    lf = TS._LOAD_FACTOR
    marks = sorted({0, lf // 2, lf, lf + lf // 2, 2 * lf})
    near = sorted({m + d for m in marks for d in (-1, 0, 1) if m + d >= 0})
    sizes = sorted({m + d for m in marks + [3 * lf, 4 * lf] for d in (-1, 0, 1) if m + d >= 0})
    cases = []
    for n in sizes:
        for i in near:
            if i > n:
                continue
            for j in sorted({i, i + 1, n} | {m for m in near if i <= m <= n}):
                if j < i or j > n:
                    continue
                for k in sorted({0, 1} | set(near)):
                    if i == j and k == 0:
                        continue
                    if k > 2 * lf + 1:
                        continue
                    cases.append({'lf': None, 'n': n, 'i': i, 'j': j, 'k': k})
    return cases


def run_band_case(case: dict) -> core.CaseResult:
    """One splice at the real load factor, then a second one that touches the seam."""
    res = core.CaseResult()
    store.set_load_factor(None)
    n, i, j, k = case['n'], case['i'], case['j'], case['k']
    init = ['x'] * n
    for p in (n // 3, (2 * n) // 3):
        if 0 <= p < n:
            init[p] = 'n'
    s, exp = store.build(init)
    op = ['splice', i, j, ['x'] * k, 'splice' if (j > i or i < n) else 'after']
    if j == i and i == n and n == 0:
        op[4] = 'after-none'
    try:
        exp, removed = store.apply_op(s, exp, op)
    except Exception as e:  # noqa
        res.fail('C07/operation-raises', f'{op[:3]} k={k} on {n} tokens: {type(e).__name__}: {e}')
        return res
    res.transitions += 1
    check_fast(s, exp, removed, res, f'n={n} splice({i},{j}) insert {k}')
    if not res.violations and len(exp) >= 2:
        # second step: remove one token just before the first block seam to provoke a merge
        mid = min(len(exp) - 1, max(0, i))
        exp, removed = store.apply_op(s, exp, ['splice', mid, mid + 1, [], 'remove'])
        res.transitions += 1
        check_fast(s, exp, removed, res, f'n={n} splice({i},{j}) insert {k}; remove({mid})')
    res.states = {core.h64(('band', tuple(len(b.tokens) for b in getattr(s, '_blocks', [])), len(exp)))}
    res.nontrivial = set(res.states)
    return res


def check_fast(s, exp, removed, res, where):
    """Linear-time version of the seq oracle for big stores."""
    got = list(s)
    if len(got) != len(exp) or any(a is not b for a, b in zip(got, exp)):
        res.fail('C07/iteration-differs-from-list', f'{where}: iteration differs from the reference list')
        return
    if len(s) != len(exp):
        res.fail('C07/len', f'{where}: len={len(s)} reference {len(exp)}')
    n = len(exp)
    try:
        for idx, t in enumerate(exp):
            if s.get_index(t) != idx:
                res.fail('C07/get_index', f'{where}: get_index(token {idx}) = {s.get_index(t)}')
                return
            if s.get_prev(t) is not (exp[idx - 1] if idx else None) or \
                    s.get_next(t) is not (exp[idx + 1] if idx + 1 < n else None):
                res.fail('C07/get_prev', f'{where}: prev/next of token {idx} wrong')
                return
    except Exception as e:  # noqa
        res.fail('C07/navigation-raises', f'{where}: {type(e).__name__}: {e}')
        return
    if exp:
        if s.get_first() is not exp[0] or s.get_last() is not exp[-1]:
            res.fail('C07/first-last', f'{where}: first/last wrong')
        for a, b in ((0, n - 1), (n // 3, (2 * n) // 3), (max(0, n - 3), n - 1)):
            if list(s.iter(exp[a], exp[b])) != exp[a:b + 1]:
                res.fail('C07/iter-range', f'{where}: iter({a},{b}) wrong')
    for t in removed[:3] + removed[-3:]:
        if t.store_handle is not None:
            res.fail('C07/removed-token-still-attached', f'{where}: removed token keeps a handle')


def run_case(case: dict) -> core.CaseResult:
    if 'n' in case and 'k' in case:
        return run_band_case(case)
    if case.get('kind') == 'lfdiff':
        from . import lfdiff
        return lfdiff.run_case(case)
    case = dict(case)
    case.pop('probe', None)
    return store.run_case(case)


def main(run: core.Run) -> None:
    tier = run.tier
    lfs = [2, 3, 4] if tier == 'quick' else [2, 3, 4, 5, 7]
    run.rule = ('fixpoint BFS over the real TokenStore: state = block layout + all caches (canon), transition = '
                'one API call (splice/insert_after/insert_before/remove/replace incl. re-insertion permutations) '
                'with every (i, j, inserted pattern) under the token cap; non-trivial = distinct canonical '
                'post-states that differ from their pre-state; oracle = lock-step plain list')
    run.assumptions = [
        'load factor is set by re-executing token_store.py\'s own module-level threshold assignments',
        'token texts are abstracted to classes x / newline: the store reads only len(block.tokens) and size.line/column',
        'small-scope: stores up to cap tokens per load factor, plus a band of splices at the literal default thresholds',
    ]
    for lf in lfs:
        store.explore(run, cfg_for(lf, tier))
        if run.total.violations:
            break
    if tier != 'quick' or True:
        band = boundary_band_cases(tier)
        if tier == 'quick':
            band = [c for c in band if c['n'] <= 2 * 1000 + 1 and c['k'] in (0, 1, 500, 1000, 2000)]
        run.run_cases(run_band_case, band, 'default-LF boundary band')
        run.bounds['boundary_band_cases'] = len(band)
    try:
        from . import lfdiff
        lfdiff.add_to(run)
    except ImportError:
        pass
