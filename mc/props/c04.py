"""C04 - operations that are not edits never change the document."""
from __future__ import annotations

import copy
import inspect
from typing import Any

from autobean_refactor import models as M
from autobean_refactor.models.internal import repeated as R

from .. import claims, core, docs, tree

PROPERTY = 'C04'
SKIP_METHODS = {'detach', 'reattach', 'clone', 'wrap_with_parenthesis', 'into_unit_cost', 'into_total_cost',
                'auto_claim_comments', 'claim_leading_comment', 'claim_trailing_comment', 'unclaim_leading_comment',
                'unclaim_trailing_comment', 'from_parsed_children'}


def _read_wrapper(w: Any, n_calls: list) -> None:
    n_calls[0] += 1
    try:
        n = len(w)
    except TypeError:
        return
    items = list(w)
    list(reversed(w)) if hasattr(w, '__reversed__') or hasattr(w, '__getitem__') else None
    for sl in (slice(None), slice(0, 1), slice(None, None, 2), slice(None, None, -1), slice(-1, None), slice(5, 1)):
        try:
            w[sl]
        except Exception:  # noqa: reads may refuse; they must still not change anything
            pass
    for i in (0, -1, n, -n - 1):
        try:
            w[i]
        except Exception:  # noqa
            pass
    if items:
        try:
            items[0] in w
            w.index(items[0])
            w.count(items[0])
        except Exception:  # noqa
            pass
    'zz-absent' in w
    w == items
    w == w
    for name in ('keys', 'values', 'items'):
        f = getattr(w, name, None)
        if callable(f):
            v = f()
            list(v)
            len(v)
            if hasattr(v, '__reversed__'):
                list(reversed(v))
    if hasattr(w, 'get'):
        w.get('aa')
        w.get('zz-absent', 1)
        try:
            w['aa']
        except Exception:  # noqa
            pass
    n_calls[0] += 12


def read_model(m: Any, n_calls: list, *, deep: bool = True) -> None:
    cls = type(m)
    for name in dir(cls):
        if name.startswith('_'):
            continue
        try:
            static = inspect.getattr_static(cls, name)
        except AttributeError:
            continue
        if isinstance(static, (classmethod, staticmethod)):
            continue
        if inspect.isfunction(static):
            if name in SKIP_METHODS:
                continue
            sig = inspect.signature(static)
            if len([p for p in sig.parameters.values() if p.default is p.empty and p.kind in (p.POSITIONAL_ONLY, p.POSITIONAL_OR_KEYWORD)]) != 1:
                continue
            if name in ('iter_children_formatted',):
                try:
                    list(getattr(m, name)())
                except NotImplementedError:
                    pass
                n_calls[0] += 1
            continue
        # descriptor / property / data attribute
        try:
            v = getattr(m, name)
        except Exception:  # noqa: a getter may raise (NotImplementedError on abstract mixins)
            continue
        n_calls[0] += 1
        if isinstance(v, (str, bytes)) or v is None or isinstance(v, (bool, int)):
            continue
        if hasattr(v, '__len__') and hasattr(v, '__getitem__') and not isinstance(v, (tuple, list, M.RawModel)):
            _read_wrapper(v, n_calls)
    m == m
    m != m
    if isinstance(m, M.RawTokenModel):
        hash(m)
        repr(m)
    if deep:
        c = copy.deepcopy(m)
        c == m
        m == c
        tree.pr(c)
    tree.pr(m)
    m.tokens
    n_calls[0] += 6


def read_sweep(root: Any, text: str, res: core.CaseResult, where: str, sub: Any = None) -> bool:
    st = root.token_store
    vis0 = [(t, t.raw_text) for t in st if t.raw_text]
    zero0 = sorted(id(t) for t in st if not t.raw_text)
    claimed0 = [getattr(t, 'claimed', None) for t in st]
    sig0 = tree.signature(root)
    n_calls = [0]
    models = list(tree.walk(root))
    prev = None
    for path, m in models:
        if isinstance(m, R.Repeated):
            continue
        try:
            read_model(m, n_calls)
            if prev is not None:
                m == prev
                prev == m
        except Exception as e:  # noqa
            res.fail(f'C04/read-raises[{type(m).__name__}]', where + f'reading {"/".join(path)} raises {type(e).__name__}: {e}', sub)
            return False
        prev = m
    for t in list(st):
        st.get_position(t)
        st.get_index(t)
        st.get_prev(t)
        st.get_next(t)
        n_calls[0] += 4
    res.transitions += n_calls[0]
    printed = tree.pr(root)
    if printed != text:
        res.fail('C04/text-changed-by-reads', where + f'after the read sweep the document prints {printed!r}', sub)
        return False
    vis1 = [(t, t.raw_text) for t in st if t.raw_text]
    if len(vis1) != len(vis0) or any(a[0] is not b[0] or a[1] != b[1] for a, b in zip(vis1, vis0)):
        res.fail('C04/visible-tokens-changed-by-reads', where + 'visible token identity / order / text changed', sub)
        return False
    if sorted(id(t) for t in st if not t.raw_text) != zero0:
        res.fail('C04/zero-width-tokens-changed-by-reads', where + 'zero-width tokens were created or dropped', sub)
        return False
    if [getattr(t, 'claimed', None) for t in st] != claimed0 or tree.signature(root) != sig0:
        res.fail('C04/tree-or-ownership-changed-by-reads', where + 'the tree signature or a claimed flag changed', sub)
        return False
    return True


def run_doc(case: dict) -> core.CaseResult:
    res = core.CaseResult()
    text = case['text']
    for mode in (True, False):
        root = docs.try_parse(text, M.File, mode)
        if root is None:
            res.outcomes['rejected'] += 1
            return res
        res.outcomes['accepted'] += 1
        h = core.h64((text, mode))
        res.states.add(h)
        res.nontrivial.add(h)
        if not read_sweep(root, text, res, f'{text!r} (auto_claim_comments={mode}): ', {'text': text}):
            return res
    res.sample = {'text': text, 'read_calls': res.transitions}
    return res


def run_case(case: dict) -> core.CaseResult:
    if 'ops' in case:
        r, _ = claims.run_claim_trace(case, {'text', 'reads'})
        return r
    return run_doc(case)


def main(run: core.Run) -> None:
    tier = run.tier
    run.rule = ('read sweep: every public non-method attribute, every view (len/iter/reversed/index/count/contains/slices/keys/values/items/get), '
                '==, hash, deepcopy, print, positions on every reachable model of every corpus document in both attribution modes; '
                'call BFS: per-document fixpoint over claim/unclaim/auto-claim calls (all models, all wrappers, named single comments) with '
                'the printed text and the visible token list compared in every state (and the read sweep repeated in every state on the '
                'small corpus); non-trivial = distinct (text, mode) pairs / distinct attribution states')
    run.assumptions = ['mutating or ownership-transferring methods (detach, reattach, clone, wrap_with_parenthesis, into_*_cost) are not reads']
    variants = (('lf', True), ('crlf', False))
    if tier == 'quick':
        items = [{'text': t} for t in docs.texts(docs.L_FULL, 2, variants=variants)]
        # three-line documents that start with a transaction header (claimed comments with another indent than their owner)
        items += [{'text': docs.join_lines([docs.L_FULL[0], a, b])} for a in docs.L_FULL for b in docs.L_FULL]
        nb, nr = 3, 2
    else:
        items = [{'text': t} for t in docs.texts(docs.L_FULL, 3, variants=variants)]
        nb, nr = 4, 3
    items += [{'text': t} for t in docs.class_corpus()] + [{'text': t} for t in docs.EXOTIC]
    run.run_cases(run_case, items, 'read sweep', chunk=50)
    for label, n, clauses in (('claim-call BFS (text oracle)', nb, {'text'}), ('claim-call BFS (text + read sweep)', nr, {'text', 'reads'})):
        bfs_cases = claims.bfs_corpus(n, with_txn4=(tier == 'quick' and 'reads' not in clauses))
        if 'reads' not in clauses:
            # the same histories with the store split into blocks of 2-3 tokens: the re-splices of a claim cross block boundaries
            bfs_cases += [dict(c, lf=2) for c in bfs_cases if c['text'].count('\n') <= 3]
        claims.claims_bfs(run, bfs_cases, clauses, label)
    run.bounds.update({'read_sweep_max_lines': 2 if tier == 'quick' else 3, 'bfs_max_lines': nb, 'bfs_with_reads_max_lines': nr})
