"""C19 - a refused operation leaves the document exactly as it was."""
from __future__ import annotations

import copy
from typing import Any, Optional

from autobean_refactor import models as M
from autobean_refactor.models.internal import repeated as R

from .. import core, docexp, docs, ops, store, tree
from .c05 import op_sig

PROPERTY = 'C19'

# a second document that owns one node of every class donors are drawn from
RICH = ('2012-12-12 ! "zp" "zn" #zt ^zl ; zi\n  zk: 7\n  zl: "zs"\n  zm: Assets:Z\n  zn: ZZZ\n  zo: #zt\n  zp: TRUE\n  zq: NULL\n'
        '  zr: 2012-12-12\n  zs: 7 ZZZ\n'
        '  ! Assets:Z 7 ZZZ {7 # 8 ZZZ, 2012-12-12, "zl", *} @ 7 ZZZ ; zi\n    zk: 7\n  Assets:Y -7 ZZZ {{7 ZZZ}} @@ 7 ZZZ\n'
        '2012-12-12 open Assets:Z ZZZ, YY "zb"\n'
        'option "zo" "zv"\n'
        '; zc\n\n'
        '2012-12-12 balance Assets:Z 7 ~ 7 ZZZ\n'
        '2012-12-12 custom "zt" TRUE Assets:Z 7 ZZZ (1 + -2)\n'
        '2012-12-13 * "last"\n  Assets:Last 7 ZZZ\n    zk: 7')      # no final line break: the last nodes end at the end of the store

_OTHER: list = []


def other_doc() -> Any:
    return docs.P().parse(RICH, M.File)


def find_attached(root: Any, cls_name: str, avoid: set[int], *, last: bool = False) -> Optional[Any]:
    found = [m for _, m in tree.walk(root)
             if type(m).__name__ == cls_name and id(m) not in avoid and not isinstance(m, R.Repeated)]
    if not found:
        return None
    return found[-1] if last else found[0]


def donor_classes(e: Any) -> list[str]:
    return [e[1]] if isinstance(e, list) and e and e[0] == 'm' else []


def attached_variants(op: list) -> list[list]:
    """variants of op in which one donor (each position of a batch in turn) is replaced by an attached node taken from
    the same document ('same') or from another document ('other'); plus the same free node offered twice in a batch"""
    out = []
    kind = op[0]
    if kind in ('setnode', 'setval') and donor_classes(op[3]):
        for src in ('same', 'other', 'other-last'):
            out.append(op[:3] + [['a', op[3][1], src]])
    elif kind == 'seq':
        meth = op[3]
        if meth in ('append',) and donor_classes(op[4]):
            for src in ('same', 'other', 'other-last'):
                out.append(op[:4] + [['a', op[4][1], src]])
        elif meth in ('insert', 'set') and donor_classes(op[5]):
            for src in ('same', 'other', 'other-last'):
                out.append(op[:5] + [['a', op[5][1], src]])
        elif meth in ('extend', 'setslice'):
            batch = op[-1]
            if batch and all(donor_classes(e) for e in batch):
                for pos in range(len(batch)):
                    for src in ('same', 'other', 'other-last'):
                        b2 = [list(e) for e in batch]
                        b2[pos] = ['a', batch[pos][1], src]
                        out.append(op[:-1] + [b2])
                if len(batch) >= 2:
                    b2 = [list(e) for e in batch]
                    b2[-1] = ['dup', 0]
                    out.append(op[:-1] + [b2])
    elif kind == 'map' and op[3] == 'set' and donor_classes(op[5]):
        for src in ('same', 'other', 'other-last'):
            out.append(op[:5] + [['a', op[5][1], src]])
    elif kind == 'numop' and donor_classes(op[3]):
        for src in ('same', 'other', 'other-last'):
            out.append(op[:3] + [['a', op[3][1], src]])
    return out


def has_attached(op: list) -> bool:
    def rec(x: Any) -> bool:
        if isinstance(x, list):
            if x and x[0] in ('a', 'dup') and len(x) >= 2 and isinstance(x[0], str):
                return True
            return any(rec(y) for y in x)
        return False
    return rec(op[2:])


def bad_raw_ops(root: Any) -> list[list]:
    """raw texts outside the token's language for value-bearing classes"""
    out = []
    bad = {'Date': ['Q', '2000-13-45'], 'Number': ['Q', '1..2'], 'Bool': ['Q'], 'BlockComment': ['Q', 'a\nb'],
           'EscapedString': [], 'MetaKey': [], 'Tag': [], 'Link': []}
    for path, m in tree.walk(root):
        if isinstance(m, M.RawTokenModel):
            for s in bad.get(type(m).__name__, []):
                out.append(['tokraw', list(path), s])
    for i, t in enumerate(root.token_store):
        if isinstance(t, M.BlockComment):
            out.append(['tokraw', ['@', i], 'Q'])
    return out


def claim_refusal_ops(root: Any) -> list[list]:
    from .. import claims
    out = []
    for op in claims.claim_ops(root):
        out.append(op)
    return out


class RefusalOracle(docexp.Oracle):
    name = 'refusal'
    kinds = {'setnode', 'setval', 'seq', 'map', 'tokraw', 'tokval', 'numop', 'spacing'}
    level = 'full'


ORACLE = RefusalOracle()


def full_snapshot(root: Any) -> tuple:
    return tree.snapshot(root)


def run_one(case: dict, res: core.CaseResult) -> None:
    """case = {text, mode, prefix: [ops applied first, unchecked], op}"""
    text, mode = case['text'], case.get('mode', True)
    lf = case.get('lf')
    if lf is not None:
        store.set_load_factor(lf)
    try:
        root = docs.try_parse(text, M.File, mode)
        if root is None:
            res.outcomes['rejected'] += 1
            return
        for pre in case.get('prefix', []):
            ap = ops.apply(root, pre)
            if ap.result == 'unresolved' or ap.exc is not None:
                return
        op = case['op']
        if op[0] in ('claim', 'claimseq', 'claimseq1'):
            from .. import claims
            tgt = tree.resolve(root, tuple(op[1]))
            if tgt is not None and op[0] != 'claim':
                getattr(tgt, op[2])         # creating the view object is not an edit
            before = (full_snapshot(root), tree.pr(root))
            _, exc = claims.apply_claim(root, op)
            res.transitions += 1
            if exc is None:
                res.outcomes['claim-call:ok'] += 1
                return
            res.outcomes['claim-call:refused'] += 1
            judge(root, before, None, None, exc, op, case, res, attached=False)
            return
        other = other_doc()
        target = tree.resolve(root, tuple(op[1])) if not (op[1] and op[1][0] == '@') else None
        # make sure the wrapper the op goes through exists before the snapshot (creating a view is not an edit)
        if target is not None and op[0] in ('seq', 'map'):
            try:
                getattr(target, op[2])
            except Exception:  # noqa
                pass
        avoid = set()
        if target is not None and op[0] in ('setnode', 'setval'):
            try:
                cur = getattr(target, op[2])
                avoid.add(id(cur))
            except Exception:  # noqa
                pass
        made: list = []

        def attached(e: list) -> Any:
            if e[0] == 'dup':
                return made[e[1]]
            src = root if e[2] == 'same' else other
            last = e[2] == 'other-last'      # a node that ends exactly at the end of its store
            a = set(avoid)
            if target is not None:
                # never offer the target itself or anything inside it (replacing an element by itself is not a re-insertion)
                a |= {id(x) for _, x in tree.walk(target)}
            node = find_attached(src, e[1], a, last=last)
            if node is None and e[2] == 'same':
                node = find_attached(other, e[1], a)
            if node is None:
                raise ops.HarnessError(f'no attached {e[1]}')
            return node

        # 'dup' needs the first element of the batch as built: intercept through ctx
        def attached_or_dup(e: list) -> Any:
            return attached(e)

        before = (full_snapshot(root), tree.pr(root))
        other_before = (full_snapshot(other), tree.pr(other))
        try:
            ap = apply_with_dup(root, op, attached_or_dup, made)
        except ops.HarnessError:
            res.outcomes['no-attached-node-of-that-class'] += 1
            return
        if ap.result == 'unresolved':
            return
        res.transitions += 1
        att = has_attached(op)
        if ap.exc is None:
            res.outcomes['ok'] += 1
            if att:
                res.fail(f'C19/attached-node-accepted[{op_sig(op)}]',
                         f'{text!r} after {case.get("prefix", [])}: {op} re-inserted a node that already lives elsewhere and was not refused; '
                         f'document now {tree.pr(root)!r}', dict(case))
            return
        res.outcomes['refused:' + type(ap.exc).__name__] += 1
        judge(root, before, other, other_before, ap.exc, op, case, res, attached=att)
    finally:
        if lf is not None:
            store.set_load_factor(None)


def apply_with_dup(root: Any, op: list, attached, made: list) -> ops.Applied:
    """ops.apply with the 'a'/'dup' encodings: 'dup' re-offers the first donor object of the batch"""
    def resolver(e: list) -> Any:
        if e[0] == 'dup':
            return made[e[1]]
        return attached(e)
    # pre-build: ops.apply creates donors in order; we need access to them for 'dup'
    orig_dec = ops.dec

    def dec2(e: Any, ctx: Any = None) -> Any:
        if isinstance(e, list) and e and e[0] == 'dup':
            return made[e[1]]
        v = orig_dec(e, ctx)
        if isinstance(v, M.RawModel):
            made.append(v)
        return v
    ops.dec = dec2
    try:
        return ops.apply(root, op, extra={'attached': resolver})
    finally:
        ops.dec = orig_dec


def judge(root, before, other, other_before, exc, op, case, res, *, attached: bool) -> None:
    text = case['text']
    where = f'{text!r} after {case.get("prefix", [])}: {op} raised {type(exc).__name__}({exc}) but '
    sig = op_sig(op) if op[0] not in ('claim', 'claimseq', 'claimseq1') else (op[2] if op[0] == 'claim' else f'{op[2]}.{op[3]}')
    sub = dict(case)
    if tree.pr(root) != before[1]:
        res.fail(f'C19/refused-call-changed-text[{sig}]', where + f'the document now prints {tree.pr(root)!r} (was {before[1]!r})', sub)
        return
    if full_snapshot(root) != before[0]:
        errs = tree.check_tree(root)
        detail = errs[0][1] if errs else 'tokens / tree signature / view tables differ'
        res.fail(f'C19/refused-call-changed-tree[{sig}]', where + f'the tree changed: {detail}', sub)
        return
    errs = tree.check_tree(root)
    if errs:
        res.fail(f'C19/tree-invalid-after-refusal[{sig}]', where + errs[0][1], sub)
        return
    if other is not None and (tree.pr(other) != other_before[1] or full_snapshot(other) != other_before[0]):
        res.fail(f'C19/refused-call-changed-donor-document[{sig}]', where + f'the document that owns the offered node now prints '
                 f'{tree.pr(other)[:200]!r}', sub)


def run_doc(case: dict) -> core.CaseResult:
    """all refusing calls from the state reached by case['prefix'] (default: the parsed state)"""
    res = core.CaseResult()
    text, mode = case['text'], case.get('mode', True)
    root = docs.try_parse(text, M.File, mode)
    if root is None:
        res.outcomes['rejected'] += 1
        return res
    for pre in case.get('prefix', []):
        ap = ops.apply(root, pre)
        if ap.result == 'unresolved' or ap.exc is not None:
            return res
    res.states.add(tree.state_key(root))
    base_ops = ops.enum_ops(root, case.get('level', 'full'), ORACLE.kinds)
    todo = []
    for op in base_ops:
        todo.append(op)
        todo.extend(attached_variants(op))
    todo.extend(bad_raw_ops(root))
    if case.get('claims', True):
        todo.extend(claim_refusal_ops(root))
    seen_ops = set()
    shard = case.get('shard')          # [k, n]: this case judges every n-th call of a document with a large alphabet
    for idx, op in enumerate(todo):
        if shard and idx % shard[1] != shard[0]:
            continue
        k = repr(op)
        if k in seen_ops:
            continue
        seen_ops.add(k)
        c = {'text': text, 'mode': mode, 'prefix': case.get('prefix', []), 'op': op}
        if case.get('lf') is not None:
            c['lf'] = case['lf']
        before = len(res.violations)
        run_one(c, res)
        if len(res.violations) > before:
            res.nontrivial.add(core.h64(k) ^ core.h64(text))
    refused = sum(v for k, v in res.outcomes.items() if k.startswith('refused') or k == 'claim-call:refused')
    res.nontrivial.add(core.h64((text, mode, tuple(map(repr, case.get('prefix', []))), refused)))
    res.counters['refused-calls-judged'] += refused
    res.sample = {'text': text, 'prefix': case.get('prefix', []), 'calls': len(seen_ops), 'refused': refused}
    return res


def run_case(case: dict) -> core.CaseResult:
    if 'op' in case:
        res = core.CaseResult()
        run_one(case, res)
        return res
    return run_doc(case)


def main(run: core.Run) -> None:
    tier = run.tier
    run.rule = ('from every parsed state (and every depth-1 state in thorough): the whole edit alphabet with out-of-range / missing / '
                'size-mismatched arguments, every donor position of every call replaced by a node attached in the same or in another '
                'document (and the same free node offered twice in a batch), raw texts outside the token language, every claim/unclaim call, '
                'illegal cost combinations, arithmetic with attached operands; oracle: an attached node must be refused; after any raising '
                'call the full snapshot (text, token identities, tree, view tables) of the document and of the donor document is unchanged; '
                'non-trivial = distinct (document, prefix, number of refused calls) tuples with >= 1 refusal')
    run.assumptions = ['calls that succeed are not judged here', 'creating a view object (reading a wrapper) is not an edit: views are read before the pre-call snapshot']
    if tier == 'quick':
        items = [dict(c) for c in docexp.corpus(docs.L_EDIT, 1, depth=1, modes=(True, False))]
        items += [dict(c, level='basic') for c in docexp.corpus(docs.L_EDIT, 2, nmin=2, depth=1)]
        items += [dict(c, level='basic') for c in docexp.corpus(docs.L_FULL, 1, depth=1)]
        depth1: list = []
    else:
        items = [dict(c) for c in docexp.corpus(docs.L_EDIT, 2, depth=1, modes=(True, False))]
        items += [dict(c, level='basic') for c in docexp.corpus(docs.L_EDIT, 3, nmin=3, depth=1)]
        items += [dict(c, level='basic') for c in docexp.corpus(docs.L_FULL, 2, depth=1)]
        items += [dict(c, lf=3, level='basic') for c in docexp.corpus(docs.L_EDIT, 2, depth=1)]
        # depth-1 states: every successful basic edit of a 1-2 line document as prefix
        depth1 = []
        for c in docexp.corpus(docs.L_EDIT, 1, depth=1) + [c for c in docexp.class_cases(1) if 'shard' not in c and c['text'].count('\n') == 1][::4]:
            root = docs.try_parse(c['text'], M.File, True)
            seen = set()
            for op in ops.enum_ops(root, 'basic', {'setnode', 'setval', 'seq', 'map'}):
                r2 = docs.try_parse(c['text'], M.File, True)
                ap = ops.apply(r2, op)
                if ap.exc is not None or ap.result == 'unresolved':
                    continue
                k = tree.state_key(r2)
                if k in seen:
                    continue
                seen.add(k)
                depth1.append({'text': c['text'], 'mode': True, 'prefix': [op], 'level': 'basic', 'claims': False})
    # documents without a final line break (their last nodes end at the end of the store) and the cost forms of C09
    # (the documented rejections of the per/total/currency group are refusals too)
    from . import c09
    items += [dict(c, level='basic') for c in docexp.corpus(docs.L_EDIT, 2, depth=1, variants=(('lf', False),))]
    items += [dict(c, level='basic', claims=False) for c in docexp.class_cases(1)]
    forms = c09.cost_forms()
    items += [{'text': c09.cost_doc(f), 'mode': True, 'level': 'basic', 'claims': False} for f in (forms if tier != 'quick' else forms[::6])]
    sharded = []
    for c in items:
        n = 16 if c['text'].count('\n') >= 5 else 4 if c['text'].count('\n') >= 2 else 1
        sharded += [dict(c, shard=[k, n]) for k in range(n)] if n > 1 else [c]
    items = sharded
    run.run_cases(run_case, items, 'refusals from parsed states', chunk=1)
    if depth1:
        run.run_cases(run_case, depth1, 'refusals from depth-1 states', chunk=4)
    run.bounds.update({'parsed_state_documents': len(items), 'depth1_states': len(depth1)})
