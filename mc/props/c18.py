"""C18 - children created from values are indented by the documented rule.

One case = one small document (one dated entry at column 0, for the posting parents a transaction with
one posting), an existing meta layout under the parent, an `indent_by` put on the parent after parsing
and one or two insertion steps.  After every step the oracle of DESIGN.md section 4 / C18 is applied:

* a meta item created FROM A VALUE (`parent.meta[new key] = value`) has the indent shared by the sibling
  items that existed before the call, or - no sibling item - parent indent + parent.indent_by;
* a comment created from a value (`x.leading_comment = s`, `x.trailing_comment = s`) has exactly the
  indent of its owner when the owner is indented (posting, meta item), '' on a column-0 entry;
* a RAW node (`raw_meta.append(MetaItem.from_value(.., indent=X))`,
  `raw_meta_with_comments.insert(0, BlockComment.from_value(.., indent=X))`) keeps X verbatim;
* `parent.meta[existing key] = value` creates nothing;
* every Indent token and every BlockComment token that existed before the call is still there (same
  object) with the same indentation, and every line printed before is printed unchanged after.

Not judged (counted in the outcome histogram only): sibling items with different indents; lists whose
only entries are standalone comments.
"""
from __future__ import annotations

import datetime
import decimal
from typing import Any, Optional

from autobean_refactor import models as M

from .. import core, docs, tree

PROPERTY = 'C18'

ENTRIES = {
    'open': '2000-01-01 open Assets:Foo',
    'transaction': '2000-01-01 * "n"',
    'balance': '2000-01-01 balance Assets:Foo 1 USD',
    'custom': '2000-01-01 custom "x" 1',
    'close': '2000-01-01 close Assets:Foo',
    'commodity': '2000-01-01 commodity USD',
    'pad': '2000-01-01 pad Assets:Foo Assets:Bar',
    'event': '2000-01-01 event "a" "b"',
    'query': '2000-01-01 query "a" "b"',
    'price': '2000-01-01 price USD 1 EUR',
    'note': '2000-01-01 note Assets:Foo "n"',
    'document': '2000-01-01 document Assets:Foo "/x"',
}
ENTRY_CLASSES = {
    'open': 'Open', 'transaction': 'Transaction', 'balance': 'Balance', 'custom': 'Custom', 'close': 'Close',
    'commodity': 'Commodity', 'pad': 'Pad', 'event': 'Event', 'query': 'Query', 'price': 'Price', 'note': 'Note',
    'document': 'Document',
}
QUICK_ENTRIES = ['open', 'transaction', 'balance', 'custom']
PAIR_PARENTS = QUICK_ENTRIES + ['posting']     # thorough: parents that get every ordered pair of routes
POSTING_INDENTS = ['  ', '    ', '\t']
ENTRY_META_INDENTS = ['  ', '    ', '      ', '\t']
INDENT_BYS = ['    ', '  ', '\t', ' ']
RAW_INDENTS = ['   ', '\t\t']
PAIR_INDENT_BYS_WITH_SIBLINGS = [' ', '\t']   # route pairs under a parent that already has items (indent_by must stay unused)
TXN_INDENT_BY_SENTINEL = '   '      # on the transaction around a posting parent: must never be used for the posting's meta
OLD_COMMENT = 'k'                   # text of the comments that are in the document from the start


def posting_meta_indents(pindent: str, tier: str) -> list[str]:
    out = [pindent + '  ', pindent + '    ', '\t\t']
    if tier == 'thorough':
        out.append(' ')             # shallower than the posting: still the posting's meta for beancount
    return out


def meta_lines(n: int, ind: str, cmt: str) -> list[str]:
    if n == 0:
        # 'only': the indented block holds nothing but a standalone comment (no sibling ITEM: the default rule applies)
        return [ind + '; ' + OLD_COMMENT] if cmt == 'only' else []
    out = [ind + 'aa: 1']
    if n == 2:
        if cmt == 'between':
            out.append(ind + '; ' + OLD_COMMENT)
        out.append(ind + 'bb: "x"')
    if cmt == 'after':
        out.append(ind + '; ' + OLD_COMMENT)
    return out


def build_text(parent: str, pindent: Optional[str], n: int, ind: str, cmt: str, post: bool, final: bool) -> str:
    if parent == 'posting':
        lines = ['2000-01-01 *', pindent + 'Assets:Foo 1 USD'] + meta_lines(n, ind, cmt)
        if post:
            lines.append(pindent + 'Assets:Bar')
    else:
        lines = [ENTRIES[parent]] + meta_lines(n, ind, cmt)
        if post:
            lines.append('  Assets:Foo 1 USD')
    return '\n'.join(lines) + ('\n' if final else '')


# ---------------------------------------------------------------------------------------------
# steps

def _value(v: list) -> Any:
    if v[0] == 'str':
        return v[1]
    if v[0] == 'dec':
        return decimal.Decimal(v[1])
    return None


def step_label(step: dict) -> str:
    r = step['r']
    if r in ('leading', 'trailing'):
        return f'{r}_comment-setter'
    return {'meta_set': 'meta-setitem', 'raw_append': 'raw_meta.append',
            'cmt_insert': 'raw_meta_with_comments.insert', 'clear': 'meta.clear', 'indent_by': 'indent_by='}[r]


def _special(tok: M.RawTokenModel) -> bool:
    return isinstance(tok, (M.Indent, M.BlockComment))


def _tok_indent(tok: M.RawTokenModel) -> str:
    return tok.indent if isinstance(tok, M.BlockComment) else tok.raw_text


def align(before: list[str], after: list[str]) -> Optional[tuple[list[tuple[str, str]], list[str]]]:
    """(changed line pairs, extra lines) or None when the old lines are not all still there in order."""
    if len(before) == len(after):
        return [(b, a) for b, a in zip(before, after) if b != a], []
    extras = []
    i = 0
    for line in after:
        if i < len(before) and before[i] == line:
            i += 1
        else:
            extras.append(line)
    if i != len(before):
        return None
    return [], extras


def lead_ws(line: str) -> str:
    return line[:len(line) - len(line.lstrip(' \t'))]


class Ctx:
    def __init__(self, case: dict, res: core.CaseResult) -> None:
        self.case = case
        self.res = res
        self.file = None
        self.entry = None
        self.parent = None
        self.parent_is_posting = case['parent'] == 'posting'
        self.created_keys: list[str] = []


def _owner(ctx: Ctx, on: str):
    if on == 'parent':
        return ctx.parent
    if on == 'entry':
        return ctx.entry
    items = list(ctx.parent.raw_meta)
    return items[0] if items else None


def _owner_indent(owner) -> str:
    if isinstance(owner, (M.Posting, M.MetaItem)):
        return owner.indent
    return ''


def parent_indent(ctx: Ctx) -> str:
    return ctx.parent.indent if ctx.parent_is_posting else ''


def structure(entry) -> tuple:
    out = [tuple(it.key for it in entry.raw_meta)]
    if isinstance(entry, M.Transaction):
        out.append(tuple(tuple(it.key for it in p.raw_meta) for p in entry.raw_postings))
    return tuple(out)


def apply_step(ctx: Ctx, step: dict, no: int) -> bool:
    """Executes one step and judges it. False = stop the case (a violation was recorded)."""
    res, case = ctx.res, ctx.case
    f, parent = ctx.file, ctx.parent
    store = f.token_store
    label = step_label(step)
    r = step['r']
    where = f'{"Posting" if ctx.parent_is_posting else "entry"}'
    minimal = dict(case, steps=case['steps'][:no + 1])
    if 'built' in minimal:
        minimal.pop('text', None)

    def fail(key: str, text: str) -> bool:
        res.fail(key, f'{describe(case, no)}: {text}', minimal)
        return False

    # ---- unjudged set-up steps (used between two judged insertions)
    if r == 'clear':
        parent.meta.clear()
        res.transitions += 1
        return True
    if r == 'indent_by':
        parent.indent_by = step['v']
        res.transitions += 1
        return True

    # ---- before
    old_special = [(t, type(t).__name__, _tok_indent(t), t.raw_text) for t in store if _special(t)]
    before_text = tree.pr(f)
    before_lines = before_text.split('\n')
    sib_items = list(parent.raw_meta)
    sib_indents = [it.indent for it in sib_items]
    n_all = len(parent.raw_meta_with_comments)
    n_special_before = len(old_special)

    # ---- the call
    target_comment = None       # a pre-existing comment whose VALUE the call is allowed to change
    expect_extra: Optional[int] = None
    judged = True
    created = None
    expected: Optional[str] = None
    try:
        if r == 'meta_set':
            key = step['key']
            existed = any(it.key == key for it in sib_items)
            parent.meta[key] = _value(step['v'])
            if existed:
                kind = 'existing-key'
                expect_extra = 0
            else:
                kind = 'created-item'
                expect_extra = 1
                ctx.created_keys.append(key)
        elif r == 'raw_append':
            item = M.MetaItem.from_value(step['key'], 'v', indent=step['x'])
            parent.raw_meta.append(item)
            kind = 'raw-item'
            expect_extra = 1
            created = item
            ctx.created_keys.append(step['key'])
        elif r == 'cmt_insert':
            cm = M.BlockComment.from_value(step['s'], indent=step['x'])
            parent.raw_meta_with_comments.insert(0, cm)
            kind = 'raw-comment'
            expect_extra = step['s'].count('\n') + 1
            created = cm
        else:
            owner = _owner(ctx, step['on'])
            if owner is None:
                res.outcomes['skipped: no meta item to put the comment on'] += 1
                return True
            slot = 'raw_leading_comment' if r == 'leading' else 'raw_trailing_comment'
            current = getattr(owner, slot)
            if current is not None:
                before_around = ''.join(t.raw_text for t in store if t is not current)
            setattr(owner, r + '_comment', step['s'])
            if current is not None:
                kind = 'existing-comment-value'
                target_comment = current
                expect_extra = None
            else:
                kind = 'created-comment'
                expect_extra = step['s'].count('\n') + 1
    except Exception as e:  # noqa
        return fail(f'C18/call-raises[{label}]', f'{type(e).__name__}: {e}')
    res.transitions += 1
    after_text = tree.pr(f)
    after_lines = after_text.split('\n')

    # ---- the created node
    if kind == 'created-item':
        items = [it for it in parent.raw_meta if it.key == step['key']]
        if len(items) != 1 or len(parent.raw_meta) != len(sib_items) + 1:
            return fail(f'C18/created-item-not-in-parent[{label}]',
                        f'keys under the parent afterwards: {[it.key for it in parent.raw_meta]}')
        created = items[0]
        if not sib_items:
            # no sibling item (standalone comments are not items): parent indent + indent_by
            expected = parent_indent(ctx) + parent.indent_by
            clause = f'C18/created-item-indent-is-not-parent-indent-plus-indent_by[{where}]'
            if n_all:
                res.outcomes['judged: list held standalone comments only'] += 1
        elif len(set(sib_indents)) > 1:
            judged = False
            got = created.indent
            pick = 'first' if got == sib_indents[0] else 'last' if got == sib_indents[-1] else 'other'
            res.outcomes[f'not judged: sibling items with different indents (implementation copies the {pick} one)'] += 1
        else:
            expected = sib_indents[0]
            clause = 'C18/created-item-indent-differs-from-sibling-items[meta-setitem]'
        if judged:
            if created.indent != expected or created.raw_indent.raw_text != expected:
                return fail(clause, f'new item {step["key"]!r} has indent {created.indent!r}, the rule gives '
                                    f'{expected!r} (sibling item indents {sib_indents!r}, parent indent '
                                    f'{parent_indent(ctx)!r}, indent_by {parent.indent_by!r}); printed {after_text!r}')
            res.outcomes['created item: ' + ('indent of the sibling items' if sib_items else
                                             'parent indent + indent_by') + f' [{where}]'] += 1
    elif kind == 'existing-key':
        if len(parent.raw_meta) != len(sib_items) or [id(a) for a in parent.raw_meta] != [id(a) for a in sib_items]:
            return fail('C18/assignment-to-existing-key-creates-or-replaces-an-item[meta-setitem]',
                        f'items before {[it.key for it in sib_items]}, after {[it.key for it in parent.raw_meta]}')
        res.outcomes['existing key: value replaced in place'] += 1
    elif kind == 'raw-item':
        if created.indent != step['x'] or created.raw_indent.raw_text != step['x'] or not any(
                it is created for it in parent.raw_meta):
            return fail(f'C18/raw-node-indent-not-kept[{label}]',
                        f'raw item built with indent {step["x"]!r} has indent {created.indent!r}; printed {after_text!r}')
        expected = step['x']
        res.outcomes['raw item: own indent kept'] += 1
    elif kind == 'raw-comment':
        ok = created.indent == step['x'] and created.token_store is store and all(
            line.startswith(step['x'] + ';') for line in created.raw_text.split('\n'))
        if not ok:
            return fail(f'C18/raw-node-indent-not-kept[{label}]',
                        f'raw comment built with indent {step["x"]!r} now {created.raw_text!r}; printed {after_text!r}')
        expected = step['x']
        res.outcomes['raw comment: own indent kept'] += 1
    elif kind == 'created-comment':
        owner_cls = type(owner).__name__ if isinstance(owner, (M.Posting, M.MetaItem)) else 'entry'
        cm = getattr(owner, slot)
        expected = _owner_indent(owner)
        if cm is None or cm.token_store is not store:
            return fail(f'C18/created-comment-not-attached[{owner_cls}]', f'printed {after_text!r}')
        bad = cm.indent != expected or any(not line.startswith(expected + ';') for line in cm.raw_text.split('\n'))
        if bad:
            return fail(f'C18/created-comment-indent-differs-from-owner[{owner_cls}]',
                        f'comment {cm.raw_text!r} (indent {cm.indent!r}) on an owner with indent {expected!r}; '
                        f'printed {after_text!r}')
        created = cm
        res.outcomes[f'created comment: indent of its owner [{owner_cls}]'] += 1
    else:
        if getattr(owner, slot) is not target_comment:
            return fail(f'C18/existing-comment-replaced[{label}]', f'printed {after_text!r}')
        res.outcomes['existing comment: value replaced in place'] += 1

    # ---- nothing that existed moved
    now = {id(t): t for t in store}
    for t, cls, ind, text in old_special:
        if id(t) not in now:
            return fail(f'C18/existing-{cls}-token-no-longer-in-document[{label}]', f'{text!r} is gone; printed {after_text!r}')
        if _tok_indent(t) != ind:
            return fail(f'C18/existing-{cls}-indent-changed[{label}]',
                        f'{text!r} now {t.raw_text!r}; printed {after_text!r}')
        if t.raw_text != text and t is not target_comment:
            return fail(f'C18/existing-{cls}-text-changed[{label}]', f'{text!r} now {t.raw_text!r}')
    order_before = [id(t) for t, *_ in old_special]
    order_after = [id(t) for t in store if id(t) in set(order_before)]
    if order_before != order_after:
        return fail(f'C18/existing-indent-tokens-reordered[{label}]', f'printed {after_text!r}')
    n_special_after = sum(1 for t in store if _special(t))
    want_new = {'created-item': 1, 'existing-key': 0, 'raw-item': 1, 'raw-comment': 1, 'created-comment': 1,
                'existing-comment-value': 0}[kind]
    if n_special_after - n_special_before != want_new:
        return fail(f'C18/unexpected-number-of-new-indented-nodes[{label}]',
                    f'{n_special_after - n_special_before} new Indent/BlockComment tokens, expected {want_new}; '
                    f'printed {after_text!r}')
    al = align(before_lines, after_lines)
    if al is None and kind != 'existing-comment-value':
        return fail(f'C18/existing-line-changed[{label}]', f'printed before {before_text!r}, after {after_text!r}')
    changed, extras = al or ([], [])
    if kind == 'existing-key':
        ind = sib_indents[[it.key for it in sib_items].index(step['key'])]
        okc = all(b.startswith(ind + step['key'] + ':') and a.startswith(ind + step['key'] + ':') for b, a in changed)
        if not okc or extras or len(changed) > 1:
            return fail(f'C18/existing-line-changed[{label}]', f'printed before {before_text!r}, after {after_text!r}')
    elif kind == 'existing-comment-value':
        # the comment may have another number of lines now: everything around it must be as before, and each of
        # its lines starts with the indent it had
        after_around = ''.join(t.raw_text for t in store if t is not target_comment)
        ind = target_comment.indent
        if after_around != before_around or any(not ln.startswith(ind + ';') for ln in target_comment.raw_text.split('\n')):
            return fail(f'C18/existing-line-changed[{label}]', f'printed before {before_text!r}, after {after_text!r}')
    else:
        if changed or len(extras) != expect_extra:
            return fail(f'C18/existing-line-changed[{label}]', f'printed before {before_text!r}, after {after_text!r}')
        if expected is not None and any(lead_ws(e) != expected for e in extras):
            return fail(f'C18/new-line-printed-with-another-indent[{label}]',
                        f'new lines {extras!r}, expected indent {expected!r}; printed {after_text!r}')

    if no + 1 < len(case['steps']):
        # the one-step case with this very step is enumerated on its own; tree and re-parse are judged there
        return True
    # ---- the tree, and what a reader of the printed file sees
    for k, msg in tree.check_tree(f):
        return fail(f'C18/tree-{k}[{label}]', f'{msg}; printed {after_text!r}')
    g = docs.try_parse(after_text, M.File)
    problem = None
    if g is None:
        problem = 'the printed document is rejected by the parser'
    else:
        ds = list(g.raw_directives)
        if len(ds) != 1 or type(ds[0]) is not type(ctx.entry):
            problem = f'the printed document re-parses as {[type(d).__name__ for d in ds]}'
        elif structure(ds[0]) != structure(ctx.entry):
            problem = f'meta keys by parent: in memory {structure(ctx.entry)}, re-parsed {structure(ds[0])}'
    if problem is not None:
        return fail(f'C18/created-item-not-reparsed-under-parent[{label}]', f'{problem}; printed {after_text!r}')
    res.states.add(core.h64(after_text))
    if judged and kind in ('created-item', 'created-comment', 'raw-item', 'raw-comment'):
        res.nontrivial.add(core.h64((before_text, parent.indent_by, repr(step))))
    return True


def describe(case: dict, upto: int) -> str:
    steps = []
    for s in case['steps'][:upto + 1]:
        r = s['r']
        if r == 'meta_set':
            steps.append(f'meta[{s["key"]!r}] = {_value(s["v"])!r}')
        elif r == 'raw_append':
            steps.append(f'raw_meta.append(MetaItem.from_value({s["key"]!r}, "v", indent={s["x"]!r}))')
        elif r == 'cmt_insert':
            steps.append(f'raw_meta_with_comments.insert(0, BlockComment.from_value({s["s"]!r}, indent={s["x"]!r}))')
        elif r == 'clear':
            steps.append('meta.clear()')
        elif r == 'indent_by':
            steps.append(f'parent.indent_by = {s["v"]!r}')
        else:
            steps.append(f'<{s["on"]}>.{r}_comment = {s["s"]!r}')
    who = 'directive[0].postings[0]' if case['parent'] == 'posting' else 'directive[0]'
    if 'built' in case:
        return (f'from_value construction {case["built"]} with indent_by {case["indent_by"]!r} printing '
                f'{case.get("text")!r}; parent = {who}; ' + '; '.join(steps))
    return f'parse({case["text"]!r}); parent = {who}; parent.indent_by = {case["indent_by"]!r}; ' + '; '.join(steps)


_D = datetime.date(2000, 1, 1)
_ONE = decimal.Decimal(1)
CTOR_ARGS = {
    'open': lambda: (_D, 'Assets:Foo'),
    'close': lambda: (_D, 'Assets:Foo'),
    'commodity': lambda: (_D, 'USD'),
    'pad': lambda: (_D, 'Assets:Foo', 'Assets:Bar'),
    'balance': lambda: (_D, 'Assets:Foo', _ONE, None, 'USD'),
    'event': lambda: (_D, 'a', 'b'),
    'query': lambda: (_D, 'a', 'b'),
    'price': lambda: (_D, 'USD', M.Amount.from_value(_ONE, 'EUR')),
    'note': lambda: (_D, 'Assets:Foo', 'n'),
    'document': lambda: (_D, 'Assets:Foo', '/x'),
    'custom': lambda: (_D, 'x', [_ONE]),
    'transaction': lambda: (_D, None, 'n', []),
}
CTOR_META = [None, {'aa': _ONE}, {'aa': _ONE, 'bb': 'x'}]


def build_from_values(ctx: Ctx, case: dict) -> bool:
    """The parent is made by from_value(..., meta=mapping, indent_by=...) instead of by the parser; the items
    and comments made from the constructor's plain values fall under the same rule."""
    b = case['built']
    res = ctx.res
    kw: dict = {'indent_by': case['indent_by']} if b['ctor_indent_by'] else {}
    if CTOR_META[b['n']] is not None:
        kw['meta'] = dict(CTOR_META[b['n']])
    if b['lead']:
        kw['leading_comment'] = OLD_COMMENT
    if b['trail']:
        kw['trailing_comment'] = OLD_COMMENT + '\n' + OLD_COMMENT
    if ctx.parent_is_posting:
        parent = M.Posting.from_value('Assets:Foo', _ONE, 'USD', indent=b['pindent'], **kw)
        entry = M.Transaction.from_value(_D, None, 'n', [parent], indent_by=TXN_INDENT_BY_SENTINEL)
        pind = b['pindent']
        where = 'Posting'
    else:
        entry = parent = getattr(M, ENTRY_CLASSES[case['parent']]).from_value(*CTOR_ARGS[case['parent']](), **kw)
        pind = ''
        where = 'entry'
    f = M.File.from_value([entry])
    ctx.file, ctx.entry, ctx.parent = f, entry, parent
    if ctx.parent_is_posting and entry.raw_postings[0] is not parent:
        raise AssertionError('posting handed to Transaction.from_value is not its first posting')
    text = tree.pr(f)
    what = f'{type(parent).__name__}.from_value(..., {", ".join(f"{k}={v!r}" for k, v in kw.items())})'
    res.transitions += 1
    want_by = case['indent_by'] if b['ctor_indent_by'] else '    '
    if parent.indent_by != want_by:
        res.fail(f'C18/from_value-indent_by-not-kept[{where}]', f'{what}: indent_by afterwards {parent.indent_by!r}', case)
        return False
    for it in parent.raw_meta:
        if it.indent != pind + want_by:
            res.fail(f'C18/from_value-item-indent-is-not-parent-indent-plus-indent_by[{where}]',
                     f'{what}: item {it.key!r} has indent {it.indent!r}, parent indent {pind!r}; printed {text!r}', case)
            return False
    for cm in (parent.raw_leading_comment, parent.raw_trailing_comment):
        if cm is not None and (cm.indent != pind or any(not ln.startswith(pind + ';') for ln in cm.raw_text.split('\n'))):
            res.fail(f'C18/from_value-comment-indent-differs-from-owner[{where}]',
                     f'{what}: comment {cm.raw_text!r} on an owner with indent {pind!r}; printed {text!r}', case)
            return False
    if len(parent.raw_meta) != b['n'] or (parent.raw_leading_comment is None) == b['lead'] or (
            parent.raw_trailing_comment is None) == b['trail']:
        raise AssertionError(f'{what} built {text!r}')
    for k, msg in tree.check_tree(f):
        res.fail(f'C18/tree-{k}[from_value]', f'{what}: {msg}', case)
        return False
    res.outcomes[f'from_value: items at parent indent + indent_by, comments at parent indent [{where}]'] += 1
    res.states.add(core.h64(text))
    res.nontrivial.add(core.h64(('built', text, want_by)))
    case['text'] = text     # for the descriptions only
    return True


def run_case(case: dict) -> core.CaseResult:
    res = core.CaseResult()
    case = dict(case)
    ctx = Ctx(case, res)
    if 'built' in case:
        if not build_from_values(ctx, case):
            return res
        f = ctx.file
    else:
        f = docs.try_parse(case['text'], M.File)
        if f is None:
            raise AssertionError(f'enumerated document is not accepted: {case["text"]!r}')
        ds = list(f.raw_directives)
        assert len(ds) == 1, case['text']
        ctx.file = f
        ctx.entry = ds[0]
        if ctx.parent_is_posting:
            ctx.parent = ctx.entry.raw_postings[0]
            ctx.entry.indent_by = TXN_INDENT_BY_SENTINEL
        else:
            ctx.parent = ctx.entry
            assert type(ctx.entry).__name__ == ENTRY_CLASSES[case['parent']], (type(ctx.entry), case['parent'])
        assert ctx.parent.indent_by == '    '       # documented default
        ctx.parent.indent_by = case['indent_by']
        res.states.add(core.h64((case['text'], case['indent_by'])))
    for no, step in enumerate(case['steps']):
        if not apply_step(ctx, step, no):
            break
    res.sample = {'case': describe(case, len(case['steps'])), 'printed': tree.pr(f)}
    return res


# ---------------------------------------------------------------------------------------------
# enumeration

VALUES = [['str', 'v'], ['dec', '1.5'], ['none']]


def routes(parent: str, n: int, tier: str, second: bool = False, short: bool = False) -> list[dict]:
    """All single steps applicable under a parent with n items. `second` picks the fresh keys of a second step;
    `short` leaves out the variations that only change the printed value (used for the first step of route pairs)."""
    nk, zk = ('newkez', 'zy') if second else ('newkey', 'zz')
    cs = 'd' if second else 'c'
    values = VALUES[:1] if short else VALUES
    out: list[dict] = []
    for v in values:
        out.append({'r': 'meta_set', 'key': nk, 'v': v})
    if n:
        for v in values:
            out.append({'r': 'meta_set', 'key': 'aa', 'v': v})
    for x in RAW_INDENTS:
        out.append({'r': 'raw_append', 'key': zk, 'x': x})
    # a one-line text, and a text with an EMPTY line in the middle (its ';' line must carry the indent too)
    texts = [cs] if short else ([cs, cs + '\n\n' + cs] if tier == 'quick' else [cs, cs + '\n' + cs + cs, cs + '\n\n' + cs])
    for x in RAW_INDENTS:
        for s in texts:
            out.append({'r': 'cmt_insert', 's': s, 'x': x})
    owners = ['parent'] + (['item0'] if n or second else []) + (['entry'] if parent == 'posting' else [])
    for r in ('leading', 'trailing'):
        for on in owners:
            for s in texts:
                out.append({'r': r, 'on': on, 's': s})
    return out


def again(step: dict) -> dict:
    """The same route a second time: a fresh key for a created item, another text for a comment."""
    out = dict(step)
    if 'key' in out:
        out['key'] = {'newkey': 'newkez', 'zz': 'zy'}.get(out['key'], out['key'])
    if 's' in out:
        out['s'] = out['s'].replace('c', 'd')
    return out


def layouts(parent: str, tier: str) -> list[tuple]:
    """(pindent, n, ind, cmt, post)"""
    out = []
    if parent == 'posting':
        for pi in POSTING_INDENTS:
            for post in (False, True):
                out.append((pi, 0, '', 'no', post))
                for ind in posting_meta_indents(pi, tier):
                    for n, cmts in ((1, ('no', 'after')), (2, ('no', 'between', 'after'))):
                        for cmt in cmts:
                            out.append((pi, n, ind, cmt, post))
        return out
    posts = (False, True) if parent == 'transaction' else (False,)
    for post in posts:
        out.append((None, 0, '', 'no', post))
        if not post:
            out.append((None, 0, '      ', 'only', post))
            out.append((None, 0, '\t', 'only', post))
        for ind in ENTRY_META_INDENTS:
            for n, cmts in ((1, ('no', 'after')), (2, ('no', 'between', 'after'))):
                for cmt in cmts:
                    out.append((None, n, ind, cmt, post))
    return out


def cases(tier: str) -> list[dict]:
    parents = (QUICK_ENTRIES if tier == 'quick' else list(ENTRIES)) + ['posting']
    finals = (True,) if tier == 'quick' else (True, False)
    items: list[dict] = []
    for parent in parents:
        for (pi, n, ind, cmt, post) in layouts(parent, tier):
            firsts = routes(parent, n, tier)
            for final in finals:
                text = build_text(parent, pi, n, ind, cmt, post, final)
                for ib in INDENT_BYS:
                    base = {'parent': parent, 'text': text, 'indent_by': ib}
                    for s1 in firsts:
                        items.append(dict(base, steps=[s1]))
                    if n == 0:
                        # the default rule used twice on one parent with a change in between: create the first item, remove
                        # it, change indent_by, create a first item again (the sequence of docs/special/indents.md)
                        for ib2 in INDENT_BYS:
                            if ib2 != ib:
                                items.append(dict(base, steps=[
                                    {'r': 'meta_set', 'key': 'newkey', 'v': VALUES[0]}, {'r': 'clear'},
                                    {'r': 'indent_by', 'v': ib2}, {'r': 'meta_set', 'key': 'newkez', 'v': VALUES[0]}]))
                    if tier == 'quick' or not final or parent not in PAIR_PARENTS:
                        # the same route twice in a row (fresh key / other comment text the second time)
                        for s1 in firsts:
                            items.append(dict(base, steps=[s1, again(s1)]))
                    elif n == 0 or ib in PAIR_INDENT_BYS_WITH_SIBLINGS:
                        # every ordered pair of routes
                        for s1 in routes(parent, n, tier, short=True):
                            # the second step may address what the first created
                            for s2 in routes(parent, max(n, 1), tier, second=True, short=True):
                                if s2['r'] == 'meta_set' and s2['key'] == 'aa' and not n:
                                    continue
                                items.append(dict(base, steps=[s1, s2]))
    return items


def built_cases(tier: str) -> list[dict]:
    parents = (QUICK_ENTRIES if tier == 'quick' else list(ENTRIES)) + ['posting']
    items: list[dict] = []
    for parent in parents:
        for pi in (POSTING_INDENTS if parent == 'posting' else [None]):
            for n, lead, trail in [(n, a, b) for n in (0, 1, 2) for a in (False, True) for b in (False, True)]:
                for ib in INDENT_BYS:
                    for ctor in ((True, False) if ib == '    ' else (True,)):
                        built = {'pindent': pi, 'n': n, 'lead': lead, 'trail': trail, 'ctor_indent_by': ctor}
                        base = {'parent': parent, 'built': built, 'indent_by': ib}
                        items.append(dict(base, steps=[]))
                        for s1 in routes(parent, n, tier, short=(tier == 'quick')):
                            items.append(dict(base, steps=[s1]))
                            if tier == 'thorough':
                                items.append(dict(base, steps=[s1, again(s1)]))
    return items


def main(run: core.Run) -> None:
    tier = run.tier
    items = cases(tier)
    parents = (QUICK_ENTRIES if tier == 'quick' else list(ENTRIES)) + ['posting']
    run.rule = ('full product of parent (dated entry kinds at column 0; a posting with indent 2/4/TAB inside a '
                'transaction) x existing meta layout (0/1/2 items with one uniform indent, optional indented comment '
                'line between/after the items, optional posting after the meta) x parent.indent_by x insertion route '
                '(meta[new key]=str/Decimal/None, meta[existing key]=..., raw_meta.append(item with own indent), '
                'raw_meta_with_comments.insert(0, comment with own indent), leading_/trailing_comment setters on the '
                'parent, on its first meta item and on the column-0 entry) x one step / two steps in a row '
                '(quick: the same route twice; thorough: every ordered pair of routes); the same parents built by '
                'from_value(meta=mapping, comments, indent_by) instead of parsed; non-trivial = distinct '
                '(document, indent_by, step) triples in which a node was created and its indent judged')
    run.bounds.update({
        'parents': parents, 'posting_indents': POSTING_INDENTS, 'entry_meta_indents': ENTRY_META_INDENTS,
        'posting_meta_indents': 'posting indent + 2 blanks, + 4 blanks, TAB TAB' + (', 1 blank' if tier == 'thorough' else ''),
        'items_before': [0, 1, 2], 'comment_line': ['none', 'between the items', 'after the items'],
        'indent_by': INDENT_BYS, 'raw_node_indents': RAW_INDENTS, 'steps': '1 and 2',
        'second_step': 'same route' if tier == 'quick' else (
            f'every route (parents {PAIR_PARENTS}, documents ending in a line break; value variations of the printed '
            'value left out; with items present from the start only indent_by 1 blank and TAB) / same route (the other '
            'entry kinds; documents without final line break)'),
        'final_line_break': [True] if tier == 'quick' else [True, False],
    })
    run.assumptions = [
        'documents are parsed with auto_claim_comments=True (the default); the comment lines of the layouts are then '
        'owned by a neighbouring meta item or by the parent, they are not list entries',
        'sibling items with different indents and lists holding standalone comments only are executed and checked for '
        'everything except the indent of the created item (the rule is only stated for a shared indent)',
        'a comment value is one or two lines; meta values are a string, a Decimal and None',
        'the transaction around a posting parent carries indent_by = 3 blanks, which must never show up',
    ]
    run.run_cases(run_case, items, 'parsed parent x layout x indent_by x steps', chunk=500)
    run.run_cases(run_case, built_cases(tier), 'parent built by from_value x meta mapping x comments x indent_by x steps', chunk=200)
    run.bounds['constructed_parents'] = ('every parent kind by from_value with meta mapping of 0/1/2 entries, with/without '
                                         'leading and trailing comment, indent_by given to the constructor (or left to '
                                         'the default), then no step / one step' + (' / the same step twice' if tier == 'thorough' else ''))
