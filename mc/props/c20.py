"""C20 - equality means same type, same text and same structure."""
from __future__ import annotations

import copy
import itertools
from typing import Any

from autobean_refactor import models as M
from autobean_refactor.models.internal import repeated as R

from .. import claims, core, docexp, docs, ops, tree
from .c05 import op_sig

PROPERTY = 'C20'


def expected_equal(a: Any, b: Any) -> bool:
    if type(a) is not type(b):
        return False
    if isinstance(a, M.RawTokenModel):
        return a.raw_text == b.raw_text
    return tree.pr(a) == tree.pr(b) and tree.signature(a) == tree.signature(b)


def judge_pair(a: Any, b: Any, res: core.CaseResult, where: str, sub: Any = None) -> bool:
    res.transitions += 1
    try:
        ab, ba = (a == b), (b == a)
    except Exception as e:  # noqa
        res.fail(f'C20/compare-raises[{type(a).__name__}]', where + f'{type(e).__name__}: {e}', sub)
        return False
    exp = expected_equal(a, b)
    ca, cb = type(a).__name__, type(b).__name__
    try:
        nab, nba = (a != b), (b != a)
    except Exception as e:  # noqa
        res.fail(f'C20/compare-raises[{type(a).__name__}]', where + f'!= raises {type(e).__name__}: {e}', sub)
        return False
    if nab == ab or nba == ba:
        res.fail(f'C20/ne-inconsistent-with-eq[{ca}]', where + f'a == b is {ab} and a != b is {nab}; b == a is {ba} and b != a is {nba} '
                 f'(a={desc(a)}, b={desc(b)})', sub)
        return False
    if ab != ba:
        res.fail(f'C20/not-symmetric[{ca},{cb}]', where + f'a == b is {ab} but b == a is {ba} (a={desc(a)}, b={desc(b)})', sub)
        return False
    if ab != exp:
        kind = 'equal-but-differ' if ab else 'unequal-but-same'
        why = why_differ(a, b)
        res.fail(f'C20/{kind}[{ca}]', where + f'a == b is {ab}; same type/text/structure is {exp} ({why}); a={desc(a)}, b={desc(b)}', sub)
        return False
    if isinstance(a, M.RawTokenModel) and isinstance(b, M.RawTokenModel) and ab and hash(a) != hash(b):
        res.fail(f'C20/hash-inconsistent[{ca}]', where + f'equal tokens {a!r} {b!r} hash differently', sub)
        return False
    res.outcomes['equal' if ab else 'unequal'] += 1
    return True


def desc(m: Any) -> str:
    try:
        return f'{type(m).__name__}:{tree.pr(m)!r}'
    except Exception:  # noqa
        return f'{type(m).__name__}:<unprintable>'


def why_differ(a: Any, b: Any) -> str:
    if type(a) is not type(b):
        return 'types differ'
    if tree.pr(a) != tree.pr(b):
        return 'texts differ'
    if not isinstance(a, M.RawTokenModel) and tree.signature(a) != tree.signature(b):
        return 'structure (slots / ownership / data fields) differs'
    return 'type, text and structure are the same'


def models_of(text: str, mode: bool) -> list[tuple[tuple, Any]]:
    root = docs.try_parse(text, M.File, mode)
    if root is None:
        return []
    return [(p, m) for p, m in tree.walk(root) if not isinstance(m, R.Repeated)]


def run_doc_pairs(case: dict) -> core.CaseResult:
    """all pairs among the sub-models of one text in both modes and of a second parse"""
    res = core.CaseResult()
    text = case['text']
    pool = []
    for mode in (True, False):
        for p, m in models_of(text, mode):
            pool.append((mode, p, m))
    if not pool:
        res.outcomes['rejected'] += 1
        return res
    again = {(mode, p): m for mode in (True, False) for p, m in models_of(text, mode)}
    where = f'{text!r}: '
    for mode, p, m in pool:
        twin = again.get((mode, p))
        if twin is not None:
            res.transitions += 1
            try:
                if not (m == twin) or not (twin == m) or not (m == m):
                    res.fail(f'C20/parsing-twice-gives-unequal-models[{type(m).__name__}]', where + f'{"/".join(p)} (mode {mode}) differs between two parses')
                    return res
                c = copy.deepcopy(m)
                if not (c == m) or not (m == c):
                    res.fail(f'C20/deepcopy-unequal[{type(m).__name__}]', where + f'{"/".join(p)} deepcopy compares unequal')
                    return res
            except Exception as e:  # noqa
                res.fail(f'C20/compare-raises[{type(m).__name__}]', where + f'comparing {"/".join(p)} with its twin / copy raises {type(e).__name__}: {e}')
                return res
    for (m1, p1, a), (m2, p2, b) in itertools.combinations(pool, 2):
        if not judge_pair(a, b, res, where + f'{"/".join(p1)}@{m1} vs {"/".join(p2)}@{m2}: ',
                          {'text': text, 'pair': [[m1, list(p1)], [m2, list(p2)]]}):
            return res
    h = core.h64(text)
    res.states.add(h)
    res.nontrivial.add(h)
    res.sample = {'text': text, 'models': len(pool), 'pairs': len(pool) * (len(pool) - 1) // 2}
    return res


def run_cross(case: dict) -> core.CaseResult:
    """pairs across documents: models of text A (both modes) x models of text B"""
    res = core.CaseResult()
    A = [(mode, p, m) for mode in (True, False) for p, m in models_of(case['a'], mode)]
    B = [(mode, p, m) for mode in (True, False) for p, m in models_of(case['b'], mode)]
    where = f'{case["a"]!r} x {case["b"]!r}: '
    for (m1, p1, a) in A:
        for (m2, p2, b) in B:
            if isinstance(a, M.RawTokenModel) != isinstance(b, M.RawTokenModel) and type(a).__name__[0] > 'M':
                continue
            if not judge_pair(a, b, res, where + f'{"/".join(p1)}@{m1} vs {"/".join(p2)}@{m2}: ',
                              {'a': case['a'], 'b': case['b']}):
                return res
    h = core.h64((case['a'], case['b']))
    res.states.add(h)
    if res.outcomes.get('equal'):
        res.nontrivial.add(h)
    return res


def run_perturb(case: dict) -> core.CaseResult:
    """every single perturbation of a document through the API: ancestors of the edit must compare to their
    pristine twins exactly as (type, text, structure) say; models outside the edit stay equal"""
    res = core.CaseResult()
    text, mode = case['text'], case.get('mode', True)
    root1 = docs.try_parse(text, M.File, mode)
    if root1 is None:
        res.outcomes['rejected'] += 1
        return res
    oplist = case.get('ops')
    if oplist is None:
        oplist = ops.enum_ops(root1, 'basic', {'tokraw', 'tokval', 'setnode', 'setval', 'seq', 'map', 'spacing'})
        oplist += claims.claim_ops(root1)
        for p, m in tree.walk(root1):
            if not isinstance(m, (M.RawTokenModel, R.Repeated)) and 'indent_by' in tree.data_fields(type(m)):
                oplist.append(['setdata', list(p), 'indent_by', '\t'])
    pristine = {p: m for p, m in tree.walk(root1) if not isinstance(m, R.Repeated)}
    for op in oplist:
        root2 = docs.try_parse(text, M.File, mode)
        hashed = [(t, hash(t)) for t in root2.token_store]      # tokens are hashed BEFORE the edit (a cached hash must not go stale)
        if op[0] == 'setdata':
            tgt = tree.resolve(root2, tuple(op[1]))
            if tgt is None:
                continue
            setattr(tgt, op[2], op[3])
            exc = None
        elif op[0] in ('claim', 'claimseq', 'claimseq1'):
            r, exc = claims.apply_claim(root2, op)
            if r == 'unresolved':
                continue
        else:
            ap = ops.apply(root2, op)
            if ap.result == 'unresolved':
                continue
            exc = ap.exc
        sig = op[0] if op[0] in ('tokraw', 'tokval', 'setdata') else (op_sig(op) if op[0] not in ('claim', 'claimseq', 'claimseq1') else 'claim')
        where = f'{text!r} (mode {mode}) perturbed by {op}: '
        sub = {'text': text, 'mode': mode, 'ops': [op], 'perturb': True}
        path = tuple(op[1]) if not (op[1] and op[1][0] == '@') else ()
        if op[0] in ('tokraw', 'tokval', 'setval', 'setnode'):
            for t, _ in hashed:
                if t.store_handle is None:
                    continue
                try:
                    fresh = type(t).from_raw_text(t.raw_text)
                except Exception:  # noqa: a raw text outside the language was forced into the token
                    continue
                res.transitions += 1
                if fresh == t and t == fresh and hash(fresh) != hash(t):
                    res.fail(f'C20/hash-inconsistent[{type(t).__name__}]', where + f'token {t!r} (hashed before the edit) equals a fresh '
                             f'{fresh!r} but their hashes differ', sub)
                    return res
        for k in range(len(path) + 1):
            p = path[:k]
            a = pristine.get(p)
            b = tree.resolve(root2, p)
            if a is None or b is None or isinstance(b, R.Repeated):
                continue
            if not judge_pair(a, b, res, where + f'at {"/".join(p) or "root"}: ', sub):
                return res
            hh = core.h64((text, repr(op), k))
            res.states.add(hh)
            if not expected_equal(a, b):
                res.nontrivial.add(hh)
                res.outcomes['perturbation-visible:' + why_differ(a, b)] += 1
    res.sample = {'text': text, 'mode': mode, 'perturbations': len(oplist)}
    return res


def run_case(case: dict) -> core.CaseResult:
    if case.get('perturb') or case.get('kind') == 'perturb':
        return run_perturb(case)
    if 'a' in case:
        return run_cross(case)
    if 'pair' in case:
        res = core.CaseResult()
        (m1, p1), (m2, p2) = case['pair']
        r1 = docs.try_parse(case['text'], M.File, m1)
        r2 = docs.try_parse(case['text'], M.File, m2)
        a, b = tree.resolve(r1, tuple(p1)), tree.resolve(r2, tuple(p2))
        if a is not None and b is not None:
            judge_pair(a, b, res, f'{case["text"]!r} {p1}@{m1} vs {p2}@{m2}: ')
        return res
    return run_doc_pairs(case)


def main(run: core.Run) -> None:
    tier = run.tier
    run.rule = ('pool: every sub-model of every corpus text in both attribution modes - all pairs within a text (incl. across modes), '
                'all pairs across a fixed set of texts; a == b must equal (same type and same text and same structure signature), be '
                'symmetric and agree with hash for tokens; perturbations: every single API edit / ownership change / indent_by change '
                'of every document, each ancestor of the edit compared with its pristine twin; non-trivial = distinct texts / distinct '
                'perturbations that are visible in text or structure')
    run.assumptions = ['structure signature = classes, slot names, token texts, data fields (indent_by) read from the field descriptors']
    variants = (('lf', True),)
    if tier == 'quick':
        pairs = [{'text': t} for t in docs.texts(docs.L_FULL, 3, variants=variants)]
        cross_texts = list(docs.accepted(docs.texts(docs.L_FULL, 1))) + list(docs.accepted(docs.texts(docs.L_COMMENT, 2, nmin=2)))
        perturb = [dict(c, kind='perturb') for c in docexp.corpus(docs.L_EDIT, 2, depth=1, modes=(True, False))]
        perturb += [dict(c, kind='perturb') for c in docexp.corpus(docs.L_EDIT, 3, nmin=3, depth=1)]
        perturb += [dict(c, kind='perturb') for c in docexp.corpus(docs.L_FULL, 1, depth=1)]
    else:
        pairs = [{'text': t} for t in docs.texts(docs.L_FULL, 3, variants=(('lf', True), ('crlf', False)))]
        pairs += [{'text': t} for t in docs.texts(docs.L_EDIT, 4, nmin=4, variants=variants)]
        cross_texts = list(docs.accepted(docs.texts(docs.L_FULL, 1))) + list(docs.accepted(docs.texts(docs.L_EDIT, 2, nmin=2))) + \
            list(docs.accepted(docs.texts(docs.L_COMMENT, 2, nmin=2)))
        perturb = [dict(c, kind='perturb') for c in docexp.corpus(docs.L_EDIT, 3, depth=1, modes=(True, False))]
        perturb += [dict(c, kind='perturb') for c in docexp.corpus(docs.L_FULL, 2, depth=1)]
    pairs += [{'text': c['text']} for c in docexp.class_cases(1)]
    perturb += [dict(c, kind='perturb') for c in docexp.class_cases(1)]
    cross_texts += docs.class_corpus()
    cross = [{'a': a, 'b': b} for a, b in itertools.combinations(cross_texts, 2)]
    run.run_cases(run_case, pairs, 'pairs within a text', chunk=40)
    run.run_cases(run_case, cross, 'pairs across texts', chunk=200)
    run.run_cases(run_case, perturb, 'single perturbations', chunk=2)
    run.bounds.update({'texts': len(pairs), 'cross_text_pairs': len(cross), 'perturbed_documents': len(perturb)})
