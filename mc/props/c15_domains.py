"""E-CTOR domains for C15: a small JSON language for constructor arguments (decoded into FRESH objects on
every call) and the table (annotation kind, parameter name) -> list of encoded values.

Encodings
    None                                    absent
    ['s', str] ['n', '1.5'] ['d', iso] ['b', bool]   plain values
    ['L', [enc, ...]]  ['T', [enc, ...]]    list / tuple
    ['M', [[key, enc], ...]]                mapping (insertion ordered)
    ['c', Class, method, [pos...], {kw}]    Class.method(*pos, **kw) - nested model built by its own constructor
    ['p', Class, text]                      parser.parse(text, Class) - a fresh free-standing model
    ['ctx', name]                           indentation of the call site ('indent' = own indentation of the model
                                            under construction, 'meta_indent' = indentation of its meta items)

Every domain is ordered from "absent / simplest" (index 0) to "most present / richest" (last index); the
all-absent and all-present rows of the enumeration are rows of first / last indexes.
"""
from __future__ import annotations

import collections.abc
import datetime
import decimal
import inspect
import types
import typing
from typing import Any, Optional

from autobean_refactor import models as M

from .. import docs

D = decimal.Decimal


# ------------------------------------------------------------------------------------------------
# encoding helpers

def S(s: str) -> list:
    return ['s', s]


def N(x: Any) -> list:
    return ['n', str(x)]


def DT(iso: str) -> list:
    return ['d', iso]


def B(b: bool) -> list:
    return ['b', b]


def L(*xs: Any) -> list:
    return ['L', list(xs)]


def T(*xs: Any) -> list:
    return ['T', list(xs)]


def MAP(*pairs: tuple) -> list:
    return ['M', [[k, v] for k, v in pairs]]


def C(cls: str, meth: str = 'from_value', *pos: Any, **kw: Any) -> list:
    return ['c', cls, meth, list(pos), kw]


def PARSE(cls: str, text: str) -> list:
    return ['p', cls, text]


CTX_INDENT = ['ctx', 'indent']
CTX_META = ['ctx', 'meta_indent']


def model_class(name: str) -> type:
    cls = getattr(M, name, None)
    if cls is None:
        for c in list(M.TOKEN_MODELS.values()) + list(M.TREE_MODELS.values()):
            if c.__name__ == name:
                return c
        raise KeyError(name)
    return cls


def _enc_text(e: Any) -> Optional[str]:
    """the string carried by an encoded indent argument"""
    if e is None:
        return None
    if e[0] == 's':
        return e[1]
    if e[0] == 'c' and e[1] == 'Indent':
        return _enc_text(e[3][0])
    return None


def call_ctx(kwargs: dict, outer: dict) -> dict:
    """indentation context of a constructor call given its (encoded) arguments"""
    has = 'indent' in kwargs or 'indent_by' in kwargs
    if not has:
        return outer
    ind = kwargs.get('indent')
    if ind is not None and ind[0] == 'ctx':
        ind_s = outer[ind[1]]
    else:
        ind_s = _enc_text(ind) if ind is not None else ''
    by = kwargs.get('indent_by')
    by_s = _enc_text(by) if by is not None else '    '
    return {'indent': ind_s or '', 'meta_indent': (ind_s or '') + (by_s or '')}


TOP_CTX = {'indent': '', 'meta_indent': '    '}


def decode(e: Any, ctx: dict) -> Any:
    """Build a fresh python object from an encoding."""
    if e is None:
        return None
    k = e[0]
    if k == 's':
        return e[1]
    if k == 'n':
        return D(e[1])
    if k == 'd':
        return datetime.date.fromisoformat(e[1])
    if k == 'b':
        return bool(e[1])
    if k == 'L':
        return [decode(x, ctx) for x in e[1]]
    if k == 'T':
        return tuple(decode(x, ctx) for x in e[1])
    if k == 'M':
        return {key: decode(v, ctx) for key, v in e[1]}
    if k == 'ctx':
        return ctx[e[1]]
    if k == 'p':
        return docs.P().parse(e[2], model_class(e[1]))
    if k == 'c':
        cls = model_class(e[1])
        kw = dict(e[4])
        # resolve the indentation arguments under the outer context first, then everything else under the own one
        for name in ('indent', 'indent_by'):
            v = kw.get(name)
            if v is not None and v[0] == 'ctx':
                kw[name] = S(ctx[v[1]])
        inner = call_ctx(kw, ctx) if issubclass(cls, M.RawTreeModel) else ctx
        pos = [decode(x, inner) for x in e[3]]
        kwargs = {name: decode(v, inner) for name, v in kw.items()}
        return getattr(cls, e[2])(*pos, **kwargs)
    raise TypeError(e)


def build_call(cls: type, ctor: str, args: dict) -> Any:
    """cls.ctor(**fresh arguments)"""
    ctx = call_ctx(args, TOP_CTX) if ('indent' in args or 'indent_by' in args) else TOP_CTX
    kwargs = {name: decode(v, ctx) for name, v in args.items()}
    return getattr(cls, ctor)(**kwargs)


# ------------------------------------------------------------------------------------------------
# annotation kinds

_PLAIN = {str: 'str', decimal.Decimal: 'Decimal', datetime.date: 'date', bool: 'bool'}

# unions with many members get a name
_ALIASES = {
    frozenset(['str', 'date', 'Decimal', 'bool', 'Account', 'Currency', 'Tag', 'Null', 'Amount', 'Bool', 'Date',
               'EscapedString', 'NumberExpr']): 'metavalue',
    frozenset(['Account', 'Amount', 'Bool', 'Currency', 'Date', 'EscapedString', 'Null', 'NumberExpr',
               'Tag']): 'metarawvalue',
    frozenset(['str', 'date', 'bool', 'Decimal', 'Account', 'Amount', 'Bool', 'Date', 'EscapedString',
               'NumberExpr']): 'customvalue',
    frozenset(['Account', 'Amount', 'Bool', 'Date', 'EscapedString', 'NumberExpr']): 'customrawvalue',
    frozenset(['Date', 'Asterisk', 'EscapedString', 'Currency', 'NumberExpr', 'Amount',
               'CompoundAmount']): 'costcomponent',
}


def _union_name(args: list) -> str:
    names = []
    for a in args:
        names.append(_PLAIN.get(a) or getattr(a, '__name__', None) or str(a))
    fs = frozenset(names)
    if fs in _ALIASES:
        return _ALIASES[fs]
    if 'Transaction' in fs and 'Option' in fs:
        return 'directive+comment' if 'BlockComment' in fs else 'directive'
    return '|'.join(sorted(names))


def kind(ann: Any) -> str:
    """A short name of an annotation; the key of the domain table together with the parameter name."""
    if isinstance(ann, str):
        return 'fwd:' + ann
    if isinstance(ann, typing.ForwardRef):
        return 'fwd:' + ann.__forward_arg__
    if ann is typing.Any:
        return 'any'
    origin = typing.get_origin(ann)
    if origin in (typing.Union, types.UnionType):
        allargs = list(typing.get_args(ann))
        args = [a for a in allargs if a is not type(None)]
        opt = 'opt:' if len(args) != len(allargs) else ''
        if len(args) == 1:
            return opt + kind(args[0])
        return opt + _union_name(args)
    if origin in (collections.abc.Iterable, tuple):
        args = typing.get_args(ann)
        return ('tuple:' if origin is tuple else 'iter:') + kind(args[0])
    if origin is collections.abc.Mapping:
        return 'map'
    if ann in _PLAIN:
        return _PLAIN[ann]
    if isinstance(ann, type):
        return ann.__name__
    return str(ann)


# forward references that typing.get_type_hints cannot resolve: keyed by parameter name
_FORWARD_BY_NAME = {'operand': 'NumberAtomExpr', 'inner_expr': 'NumberAddExpr', 'number_add_expr': 'NumberAddExpr'}


def signature_kinds(cls: type, ctor: str) -> list[tuple[str, str, bool]]:
    """[(parameter name, kind, hints resolved?)] of cls.ctor"""
    f = getattr(cls, ctor)
    sig = inspect.signature(f)
    try:
        hints = typing.get_type_hints(f)
        resolved = True
    except NameError:
        hints = {}
        resolved = False
    out = []
    for p in sig.parameters.values():
        if p.kind in (p.VAR_POSITIONAL, p.VAR_KEYWORD):
            raise TypeError(f'{cls.__name__}.{ctor}: unsupported parameter {p}')
        if p.name in hints:
            out.append((p.name, kind(hints[p.name]), True))
        elif p.name in _FORWARD_BY_NAME:
            out.append((p.name, 'fwd:' + _FORWARD_BY_NAME[p.name], False))
        else:
            out.append((p.name, kind(p.annotation), resolved or not isinstance(p.annotation, str)))
    return out


# ------------------------------------------------------------------------------------------------
# value domains

ACCOUNTS = ['Assets:Foo', 'Expenses:Bär-1:X2']
CURRENCIES = ['USD', "AB.C-D'E1"]
META_KEYS = ['aa', 'a-b_C9']
TAGS = ['t', 'a-b_c/d.e']
TEXTS = ['x', 'a"b\\c', 'l1\nl2', '']
BLOCK_COMMENTS = ['c', 'c\nd', '']          # '' is a bare ';' line: a value like any other
INLINE_COMMENTS = ['c', '']
DECIMALS = ['1', '-1.5', '0']
DATES = ['2000-01-01', '2012-12-31', '0999-01-02']      # a year below 1000 needs zero padding


def _amount(n: str = '1', cur: str = 'USD') -> list:
    return C('Amount', 'from_value', N(n), S(cur))


def _bc(text: str, where: list = CTX_INDENT) -> list:
    return C('BlockComment', 'from_value', S(text), indent=where)


def _mi(key: str, value: Any, **kw: Any) -> list:
    return C('MetaItem', 'from_value', S(key), value, indent=CTX_META, **kw)


def _num(x: str) -> list:
    return C('NumberExpr', 'from_value', N(x))


_ACCOUNT_M = C('Account', 'from_value', S('Assets:Bar'))

# Optional[Mapping[str, MetaValue | MetaRawValue]]: sizes 0, 1, 2 with every kind of value
META_MAPS = [
    None,
    MAP(),
    MAP(('aa', S('a"b\\c'))),
    MAP(('aa', N('-1.5')), ('bb', B(True))),
    MAP(('aa', DT('2000-01-01')), ('bb', _ACCOUNT_M)),
    MAP(('aa', _amount('-1')), ('bb', None)),
    MAP(('aa', C('Currency', 'from_value', S('USD'))), ('bb', C('Tag', 'from_value', S('t')))),
    MAP(('aa', C('Bool', 'from_value', B(False))), ('bb', PARSE('NumberExpr', '1 + 2'))),
    MAP(('a-b_C9', C('Null', 'from_default')), ('bb', S('l1\nl2'))),
    MAP(('aa', N('1')), ('bb', S('x')), ('cc', B(False))),          # three items: separators between items 2..n
]

# Iterable[MetaItem | BlockComment] for from_children: incl. comment items, items with their own comments
META_ITEMS = [
    L(),
    L(_mi('aa', S('x'))),
    L(_mi('aa', N('-1.5')), _mi('bb', None)),
    L(_bc('c', CTX_META), _mi('aa', B(True))),
    L(_mi('aa', _ACCOUNT_M), _bc('c\nd', CTX_META)),
    L(_mi('aa', _amount('-1'), leading_comment=S('ml'), inline_comment=S('mi'), trailing_comment=S('mt')),
      _mi('bb', DT('2000-01-01'), inline_comment=S(''))),
    L(_mi('aa', N('1')), _mi('bb', S('x')), _mi('cc', None)),
]

META_VALUES = [           # MetaItem.from_value / Pushmeta.from_value `value`
    None, S('x'), S('a"b\\c'), S('l1\nl2'), DT('2000-01-01'), DT('0999-01-02'), N('1'), N('-1.5'), B(True), B(False), _ACCOUNT_M,
    C('Currency', 'from_value', S('USD')), C('Tag', 'from_value', S('t')), C('Null', 'from_default'),
    C('Bool', 'from_value', B(True)), C('Date', 'from_value', DT('2012-12-31')),
    C('EscapedString', 'from_value', S('a"b\\c')), PARSE('NumberExpr', '1 + 2 * (3)'), _amount('-1.5'),
]
META_RAW_VALUES = [       # from_children `value`
    None, C('EscapedString', 'from_value', S('a"b\\c')), _ACCOUNT_M, C('Bool', 'from_value', B(False)),
    C('Currency', 'from_value', S('USD')), C('Date', 'from_value', DT('2000-01-01')), C('Null', 'from_default'),
    _num('-1.5'), C('Tag', 'from_value', S('t')), PARSE('NumberExpr', '1 + 2 * (3)'), _amount('-1.5'),
]

# custom values: mixed kinds, consecutive numbers (negative after a number = the documented disambiguation)
CUSTOM_VALUES = [
    L(),
    L(S('a"b\\c')),
    L(N('-1')),
    L(N('1'), N('1')),
    L(N('1'), N('-1')),
    L(N('-1'), N('-2')),
    L(N('1'), _amount('-2')),
    L(N('-1'), _amount('-2'), N('-3')),
    L(N('10'), N('-2'), N('-3')),                                   # a signed number after an already wrapped one
    L(PARSE('NumberExpr', '(5)'), N('-1')),
    L(PARSE('NumberExpr', '2 * (3)'), _amount('-1')),
    L(_amount('1'), N('-1')),
    L(PARSE('NumberExpr', '1 + 2'), PARSE('NumberExpr', '-1 + 2')),
    L(N('1'), PARSE('NumberExpr', '+1')),
    L(N('1'), PARSE('Amount', '-2 * 3 USD')),
    L(C('Bool', 'from_value', B(True)), C('Date', 'from_value', DT('2000-01-01')),
      C('EscapedString', 'from_value', S('x'))),
    L(DT('2000-01-01'), B(True), _ACCOUNT_M, S('l1\nl2'), _amount('-1.5', 'EUR'), N('0'), B(False)),
]
CUSTOM_RAW_VALUES = [
    L(),
    L(C('EscapedString', 'from_value', S('a"b\\c'))),
    L(_num('-1')),
    L(_num('1'), _num('-1')),
    L(_num('-1'), _num('-2')),
    L(_num('1'), _amount('-2')),
    L(_num('-1'), _amount('-2'), _num('-3')),
    L(_num('10'), _num('-2'), _num('-3')),
    L(PARSE('NumberExpr', '(5)'), _num('-1')),
    L(_amount('1'), _num('-1')),
    L(PARSE('NumberExpr', '1 + 2'), PARSE('NumberExpr', '-1 + 2')),
    L(_num('1'), PARSE('NumberExpr', '+1')),
    L(_num('1'), PARSE('Amount', '-2 * 3 USD')),
    L(C('Date', 'from_value', DT('2000-01-01')), C('Bool', 'from_value', B(True)), _ACCOUNT_M,
      C('EscapedString', 'from_value', S('l1\nl2')), _amount('-1.5', 'EUR'), _num('0')),
]

# cost specs: every form of the C09 state machine incl. compound ones
COST_SPECS = [
    C('CostSpec', 'from_value', None, None, None),
    C('CostSpec', 'from_value', N('1'), None, S('USD')),
    C('CostSpec', 'from_value', None, N('2'), S('USD')),
    C('CostSpec', 'from_value', N('-1.5'), None, None),
    C('CostSpec', 'from_value', None, N('2'), None),
    C('CostSpec', 'from_value', None, None, S('USD')),
    C('CostSpec', 'from_value', None, None, None, DT('2000-01-01'), S('a"b'), B(True)),
    C('CostSpec', 'from_children', C('UnitCost', 'from_children', L(
        C('CompoundAmount', 'from_value', None, N('2'), S('USD'))))),
    C('CostSpec', 'from_children', C('TotalCost', 'from_children', L(
        C('Asterisk', 'from_default'), _amount('1')))),
    C('CostSpec', 'from_value', N('1'), N('2'), S('USD'), DT('2000-01-01'), S('l'), B(True)),
]
UNIT_PRICES = [
    C('UnitPrice', 'from_value', None, None),
    C('UnitPrice', 'from_value', None, S('USD')),
    C('UnitPrice', 'from_value', N('-1.5'), None),
    C('UnitPrice', 'from_value', N('1'), S('USD')),
]
TOTAL_PRICES = [
    C('TotalPrice', 'from_value', None, None),
    C('TotalPrice', 'from_value', N('1'), S('USD')),
]
PRICES = UNIT_PRICES[:3] + TOTAL_PRICES + UNIT_PRICES[3:]

COST_COMPONENTS = [
    L(),
    L(_amount('1')),
    L(_num('-1.5')),
    L(C('Currency', 'from_value', S('USD'))),
    L(C('CompoundAmount', 'from_value', N('1'), None, S('USD'))),
    L(C('CompoundAmount', 'from_value', None, None, S('USD'))),
    L(C('Date', 'from_value', DT('2000-01-01')), C('EscapedString', 'from_value', S('a"b')),
      C('Asterisk', 'from_default')),
    L(C('Asterisk', 'from_default'), _amount('1')),
    L(C('CompoundAmount', 'from_value', N('1'), N('2'), S('USD')), C('Date', 'from_value', DT('2000-01-01')),
      C('EscapedString', 'from_value', S('l')), C('Asterisk', 'from_default')),
]
COSTS = [
    C('UnitCost', 'from_children', L()),
    C('TotalCost', 'from_children', L()),
    C('UnitCost', 'from_children', L(_amount('1'))),
    C('TotalCost', 'from_children', L(_num('2'), C('EscapedString', 'from_value', S('l')))),
    C('UnitCost', 'from_children', COST_COMPONENTS[-1]),
]

# postings with several optional subsets of their own (the complete subsets are the Posting constructors' rows)
_P_MIN = C('Posting', 'from_value', S('Assets:Foo'), None, None)
_P_AMT = C('Posting', 'from_value', S('Assets:Foo'), N('1'), S('USD'))
_P_CUR = C('Posting', 'from_value', S('Assets:Baz'), None, S('USD'), price=TOTAL_PRICES[1], indent=S('\t'))
_P_FULL = C('Posting', 'from_value', S('Assets:Bar'), N('-1.5'), S('EUR'), flag=S('!'), cost=COST_SPECS[-1],
            price=UNIT_PRICES[-1], inline_comment=S('pc'), meta=MAP(('aa', S('x')), ('bb', N('1'))))
_P_CMT = C('Posting', 'from_value', S('Assets:Foo'), N('0'), S('USD'), leading_comment=S('pl\npl2'),
           trailing_comment=S('pt'), indent=S('  '), meta=MAP(('aa', None)), indent_by=S('\t'))
_P_CHILD = C('Posting', 'from_children', C('Account', 'from_value', S('Assets:Foo')), PARSE('NumberExpr', '1 + 2'),
             None, indent=C('Indent', 'from_value', S('    ')), cost=COST_SPECS[7],
             meta=L(_bc('c', CTX_META), _mi('aa', S('x'))))
POSTINGS = [
    L(),
    L(_P_MIN),
    L(_P_AMT, _P_MIN),
    L(_P_CUR, _P_CHILD),
    L(_P_CMT, _P_FULL),
    L(_P_FULL, _P_CMT),
    L(_P_AMT, _P_MIN, _P_CUR),
]

TAG_LISTS = [L(), L(S('t')), L(S('t'), S('a-b_c/d.e'))]
LINK_LISTS = [L(), L(S('l')), L(S('l'), S('a-b_c/d.e'))]
CURRENCY_LISTS = [L(), L(S('USD')), L(S('USD'), S("AB.C-D'E1")), L(S('USD'), S('EUR'), S('GBP'))]
TAGS_LINKS = [
    L(),
    L(C('Tag', 'from_value', S('t'))),
    L(C('Link', 'from_value', S('l')), C('Tag', 'from_value', S('t'))),
    L(C('Tag', 'from_value', S('t')), C('Tag', 'from_value', S('a-b_c/d.e')), C('Link', 'from_value', S('l'))),
]

# number expression parts
_NUMBER = C('Number', 'from_value', N('1'))
_NUMBER2 = C('Number', 'from_value', N('2.50'))
_MUL1 = C('NumberMulExpr', 'from_children', T(_NUMBER), T())
_ADD1 = C('NumberAddExpr', 'from_children', T(_MUL1), T())
_PAREN = C('NumberParenExpr', 'from_children',
           C('NumberAddExpr', 'from_children', T(_MUL1, C('NumberMulExpr', 'from_children', T(_NUMBER2), T())),
             T(C('AddOp', 'from_raw_text', S('-')))))
_UNARY = C('NumberUnaryExpr', 'from_children', C('UnaryOp', 'from_raw_text', S('-')), _NUMBER)
_UNARY2 = C('NumberUnaryExpr', 'from_children', C('UnaryOp', 'from_raw_text', S('+')), _UNARY)
ATOMS = [_NUMBER, _NUMBER2, _PAREN, _UNARY, _UNARY2,
         C('NumberParenExpr', 'from_children', C('NumberAddExpr', 'from_children', T(
             C('NumberMulExpr', 'from_children', T(_UNARY), T())), T()))]
_MUL2 = C('NumberMulExpr', 'from_children', T(_NUMBER, _PAREN), T(C('MulOp', 'from_raw_text', S('*'))))
_MUL3 = C('NumberMulExpr', 'from_children', T(_UNARY, _NUMBER2, _NUMBER),
          T(C('MulOp', 'from_raw_text', S('/')), C('MulOp', 'from_raw_text', S('*'))))
MUL_OPERANDS = [T(_NUMBER), T(_UNARY), T(_NUMBER, _PAREN), T(_NUMBER, _UNARY), T(_UNARY2, _NUMBER2, _PAREN)]
MUL_OPS = [T(), T(C('MulOp', 'from_raw_text', S('*'))), T(C('MulOp', 'from_raw_text', S('/'))),
           T(C('MulOp', 'from_raw_text', S('/')), C('MulOp', 'from_raw_text', S('*')))]
ADD_OPERANDS = [T(_MUL1), T(_MUL3), T(_MUL1, _MUL2), T(_MUL1, C('NumberMulExpr', 'from_children', T(_UNARY), T())),
                T(_MUL3, _MUL1, _MUL2)]
ADD_OPS = [T(), T(C('AddOp', 'from_raw_text', S('+'))), T(C('AddOp', 'from_raw_text', S('-'))),
           T(C('AddOp', 'from_raw_text', S('-')), C('AddOp', 'from_raw_text', S('+')))]
ADD_EXPRS = [
    _ADD1,
    C('NumberAddExpr', 'from_children', T(C('NumberMulExpr', 'from_children', T(_UNARY), T())), T()),
    C('NumberAddExpr', 'from_children', T(_MUL1, _MUL2), T(C('AddOp', 'from_raw_text', S('+')))),
    C('NumberAddExpr', 'from_children', T(_MUL3, _MUL1, _MUL2),
      T(C('AddOp', 'from_raw_text', S('-')), C('AddOp', 'from_raw_text', S('+')))),
]
NUMBER_EXPRS = [_num('1'), _num('-1.5'), _num('0'), PARSE('NumberExpr', '1 + 2 * (3)'),
                C('NumberExpr', 'from_children', ADD_EXPRS[-1])]


def _strs(vals: list) -> list:
    return [S(v) for v in vals]


def _tok(cls: str, vals: list, meth: str = 'from_value') -> list:
    return [C(cls, meth, S(v)) for v in vals]


# (kind, parameter name) -> domain;  (kind, None) is the fallback for every parameter name of that kind.
# 'opt:' is handled generically ({None} + domain of the rest).
TABLE: dict[tuple[str, Optional[str]], list] = {
    # ---- from_value: plain values by role
    ('str', 'account'): _strs(ACCOUNTS),
    ('str', 'source_account'): _strs(ACCOUNTS),
    ('str', 'currency'): _strs(CURRENCIES),
    ('str', 'key'): _strs(META_KEYS),                 # MetaItem / Pushmeta / Popmeta (Option.key: override below)
    ('str', 'tag'): _strs(TAGS),
    ('str', 'flag'): _strs(['*', '!', 'P']),
    ('str', 'indent'): _strs(['  ', '    ']),
    ('str', 'indent_by'): _strs(['    ', '\t']),
    ('str', 'leading_comment'): _strs(BLOCK_COMMENTS),
    ('str', 'trailing_comment'): _strs(BLOCK_COMMENTS),
    ('str', 'inline_comment'): _strs(INLINE_COMMENTS),
    # EscapedString-backed free text
    ('str', 'type'): _strs(TEXTS), ('str', 'description'): _strs(TEXTS), ('str', 'name'): _strs(TEXTS),
    ('str', 'query_string'): _strs(TEXTS), ('str', 'filename'): _strs(TEXTS), ('str', 'comment'): _strs(TEXTS),
    ('str', 'value'): _strs(TEXTS), ('str', 'booking'): _strs(TEXTS), ('str', 'config'): _strs(TEXTS),
    ('str', 'label'): _strs(TEXTS), ('str', 'payee'): _strs(TEXTS), ('str', 'narration'): _strs(TEXTS),
    ('Decimal', None): [N(x) for x in DECIMALS],
    ('date', None): [DT(x) for x in DATES],
    ('bool', None): [B(False), B(True)],
    ('iter:str', 'tags'): TAG_LISTS,
    ('iter:str', 'links'): LINK_LISTS,
    ('iter:str', 'currencies'): CURRENCY_LISTS,
    ('map', 'meta'): META_MAPS[1:],
    ('metavalue', 'value'): META_VALUES[1:],
    ('iter:customvalue', 'values'): CUSTOM_VALUES,
    ('iter:Posting', 'postings'): POSTINGS,
    ('CostSpec', 'cost'): COST_SPECS,
    ('TotalPrice|UnitPrice', 'price'): PRICES,
    ('Amount', None): [_amount('1'), _amount('-1.5', "AB.C-D'E1"), PARSE('Amount', '1 + 2 * (3) USD')],
    # ---- from_children: models by class
    ('Date', None): [C('Date', 'from_value', DT(x)) for x in DATES],
    ('Account', None): _tok('Account', ACCOUNTS),
    ('Currency', None): _tok('Currency', CURRENCIES),
    ('EscapedString', None): _tok('EscapedString', TEXTS),
    ('MetaKey', None): _tok('MetaKey', META_KEYS),
    ('Tag', None): _tok('Tag', TAGS),
    ('BlockComment', None): [_bc(x) for x in BLOCK_COMMENTS],
    ('InlineComment', None): _tok('InlineComment', INLINE_COMMENTS),
    ('Indent', None): _tok('Indent', ['  ', '    ']),
    ('PostingFlag', None): _tok('PostingFlag', ['!', '*']),
    ('TransactionFlag', None): _tok('TransactionFlag', ['*', '!', 'P']) + [C('TransactionFlag', 'from_raw_text', S('txn'))],
    ('Ignored', None): _tok('Ignored', ['* x', ':y', '#'], 'from_raw_text'),
    ('UnaryOp', None): _tok('UnaryOp', ['-', '+'], 'from_raw_text'),
    ('NumberExpr', None): NUMBER_EXPRS,
    ('Tolerance', None): [C('Tolerance', 'from_value', N('1')), C('Tolerance', 'from_value', N('-1.5')),
                          C('Tolerance', 'from_children', PARSE('NumberExpr', '1 / 2'))],
    ('metarawvalue', 'value'): META_RAW_VALUES[1:],
    ('iter:BlockComment|MetaItem', 'meta'): META_ITEMS,
    ('iter:Link|Tag', 'tags_links'): TAGS_LINKS,
    ('iter:Currency', 'currencies'): [L(), L(C('Currency', 'from_value', S('USD'))),
                                      L(C('Currency', 'from_value', S('USD')),
                                        C('Currency', 'from_value', S("AB.C-D'E1")))],
    ('iter:customrawvalue', 'values'): CUSTOM_RAW_VALUES,
    ('iter:costcomponent', 'components'): COST_COMPONENTS,
    ('TotalCost|UnitCost', 'cost'): COSTS,
    ('tuple:AddOp', 'ops'): ADD_OPS,
    ('tuple:MulOp', 'ops'): MUL_OPS,
    ('fwd:NumberAtomExpr', 'operand'): ATOMS,
    ('fwd:NumberAddExpr', 'inner_expr'): ADD_EXPRS,
    ('fwd:NumberAddExpr', 'number_add_expr'): ADD_EXPRS,
}

# (class, constructor, parameter) -> domain where the role differs from the table's
OVERRIDES: dict[tuple[str, str, str], list] = {
    ('Option', 'from_value', 'key'): _strs(TEXTS),
    ('Posting', 'from_value', 'flag'): _strs(['!', '*']),
    ('NumberAddExpr', 'from_children', 'operands'): ADD_OPERANDS,
    ('NumberMulExpr', 'from_children', 'operands'): MUL_OPERANDS,
}


def domain(cls: type, ctor: str, pname: str, knd: str) -> list:
    got = OVERRIDES.get((cls.__name__, ctor, pname))
    if got is not None:
        return got
    opt = knd.startswith('opt:')
    base = knd[4:] if opt else knd
    dom = TABLE.get((base, pname))
    if dom is None:
        dom = TABLE.get((base, None))
    if dom is None:
        raise KeyError(f'no domain for {cls.__name__}.{ctor}({pname}: {knd})')
    if opt and None not in dom:
        dom = [None] + dom
    return dom
