"""Shared exploration for C02 (a token assignment changes only that token's span) and the document-level
part of C08 (positions after value / raw_text assignments and structural edits)."""
from __future__ import annotations

from typing import Any

from autobean_refactor import models as M
from autobean_refactor.models.internal import value_properties as VP

from .. import core, docexp, docs, ops, store, tree

GENERIC_RAW = ['', 'Q', 'a\nb', 'a\x0cb\nc', 'a\u2028b\r\r\nc\rd']


def token_ops(root: Any) -> list[list]:
    out = []
    for i, t in enumerate(root.token_store):
        name = type(t).__name__
        domain = list(ops.RAW_DOMAIN.get(name, []))
        if isinstance(t, M.BlockComment) and t.indent:
            domain = [t.indent + x.replace('\n', '\n' + t.indent) for x in domain]
        seen = set()
        for s in domain + GENERIC_RAW:
            if s != t.raw_text and s not in seen:
                seen.add(s)
                # 5th element: the text is in the token type's language, so the assignment must succeed
                out.append(['tokraw', ['@', i], s] + (['in-domain'] if s in domain else []))
        if isinstance(t, VP.RWValue):
            for v in ops.token_values(t):
                out.append(['tokval', ['@', i], ops.enc(v), 'in-domain'])
            if isinstance(t, M.BlockComment):
                out.append(['tokval', ['@', i], ['s', 'y\nw']])
                out.append(['tokval', ['@', i], ['s', '']])
    return out


def positions_from_text(toks: list) -> list[tuple[int, int]]:
    out = []
    line = col = 0
    for t in toks:
        out.append((line, col))
        s = t.raw_text
        k = s.count('\n')
        if k:
            line += k
            col = len(s) - (s.rfind('\n') + 1)
        else:
            col += len(s)
    return out


def check_positions(root: Any, res: core.CaseResult, where: str, sig: str) -> None:
    st = root.token_store
    toks = list(st)
    ref = positions_from_text(toks)
    for i, t in enumerate(toks):
        try:
            p = st.get_position(t)
            k = st.get_index(t)
        except Exception as e:  # noqa
            res.fail(f'C08/position-raises[{sig}]', where + f'get_position/get_index of token #{i} raises {type(e).__name__}: {e}')
            return
        if (p.line, p.column) != ref[i]:
            res.fail(f'C08/position-differs-from-text[{sig}]', where + f'token #{i} {t!r} reported at {(p.line, p.column)}, '
                     f'the printed text has it at {ref[i]}')
            return
        if k != i:
            res.fail(f'C08/index-differs[{sig}]', where + f'token #{i} reports index {k}')
            return


class TokenOracle(docexp.Oracle):
    """clauses: 'span' (C02) and/or 'pos' (C08)"""
    name = 'token-edit'
    kinds = {'tokraw', 'tokval'}

    def __init__(self, clauses: set[str]):
        self.clauses = clauses

    def start(self, root, case, res):
        if 'pos' in self.clauses:
            check_positions(root, res, f'freshly parsed {case["text"]!r}: ', 'parse')

    def pre(self, root, op):
        toks = list(root.token_store)
        return {'toks': [(t, t.raw_text) for t in toks], 'target': (toks[op[1][1]] if op[1][0] == '@' and op[1][1] < len(toks) else tree.resolve(root, tuple(op[1])))}

    def post(self, root, op, ap, pre, res, case):
        where = f'{case["text"]!r} after {case["ops"]}: '
        sig = f'{type(pre["target"]).__name__}.{"value" if op[0] == "tokval" else "raw_text"}'
        if 'pos' in self.clauses:
            check_positions(root, res, where, sig)
        if 'span' in self.clauses and ap.exc is not None and op[-1] == 'in-domain':
            res.fail(f'C02/in-domain-assignment-raises[{sig}]', where + f'{type(ap.exc).__name__}: {ap.exc}')
            return
        if 'span' not in self.clauses or ap.exc is not None:
            return
        toks1 = list(root.token_store)
        toks0 = pre['toks']
        if len(toks1) != len(toks0) or any(a is not b[0] for a, b in zip(toks1, toks0)):
            res.fail(f'C02/token-identity-or-order-changed[{sig}]', where + 'the token sequence changed')
            return
        tgt = pre['target']
        for t, (t0, x0) in zip(toks1, toks0):
            if t is tgt:
                continue
            if t.raw_text != x0:
                res.fail(f'C02/other-token-text-changed[{sig}]', where + f'token {t0!r} was {x0!r}')
                return
        a = 0
        old = ''
        for t0, x0 in toks0:
            if t0 is tgt:
                break
            a += len(x0)
        old = ''.join(x for _, x in toks0)
        tl = len(dict((id(t0), x0) for t0, x0 in toks0)[id(tgt)])
        expect = old[:a] + tgt.raw_text + old[a + tl:]
        got = tree.pr(root)
        if got != expect:
            res.fail(f'C02/printed-text-not-span-replacement[{sig}]', where + f'printed {got!r}, expected {expect!r}')
            return
        if op[0] == 'tokval' and ap.exc is None:
            v = ops.dec(op[2])
            if tgt.value != v:
                res.fail(f'C02/value-not-stored[{sig}]', where + f'value reads {tgt.value!r}')


def expand_tokens(case: dict, hist: list, oracle: TokenOracle):
    """like docexp.expand but with the per-store-token alphabet"""
    res = core.CaseResult()
    succ = []
    lf = case.get('lf')
    if lf is not None:
        store.set_load_factor(lf)
    try:
        if hist:
            base = docexp.run_history(docexp.history_case(case, hist), oracle, core.CaseResult(), check_from=len(hist))
        else:
            base = docexp.parse_case(case)
            if base is not None:
                oracle.start(base, case, res)
                res.states.add(tree.state_key(base))
        if base is None:
            return res, succ
        k0 = tree.state_key(base)
        for op in token_ops(base):
            h2 = hist + [op]
            r = core.CaseResult()
            end = docexp.run_history(docexp.history_case(case, h2), oracle, r, check_from=len(hist))
            res.transitions += r.transitions
            res.outcomes.update(r.outcomes)
            res.violations.extend(r.violations)
            if end is None:
                continue
            k = tree.state_key(end)
            res.states.add(k)
            if k != k0:
                res.nontrivial.add(k)
                succ.append((k, h2))
                if res.sample is None:
                    res.sample = {'text': case['text'], 'ops': h2, 'result': tree.pr(end)}
    finally:
        if lf is not None:
            store.set_load_factor(None)
    return res, succ


def make_run_case(oracle: TokenOracle):
    def run_case(case: dict) -> core.CaseResult:
        if 'ops' in case:
            res = core.CaseResult()
            lf = case.get('lf')
            if lf is not None:
                store.set_load_factor(lf)
            try:
                docexp.run_history(case, oracle, res)
            finally:
                if lf is not None:
                    store.set_load_factor(None)
            return res
        total = core.CaseResult()
        frontier = [[]]
        seen = set()
        for d in range(case.get('depth', 1)):
            nxt = []
            for hist in frontier:
                r, succ = expand_tokens(case, hist, oracle)
                total.transitions += r.transitions
                total.outcomes.update(r.outcomes)
                total.violations.extend(r.violations)
                total.states |= r.states
                total.nontrivial |= r.nontrivial
                total.sample = total.sample or r.sample
                for k, h2 in succ:
                    if k not in seen:
                        seen.add(k)
                        nxt.append(h2)
            frontier = nxt
        return total
    return run_case


def corpus(tier: str) -> list[dict]:
    variants = (('lf', True), ('crlf', False))
    if tier == 'quick':
        items = docexp.corpus(docs.L_FULL, 2, depth=1, variants=variants)
        items += docexp.corpus(docs.L_EDIT, 1, depth=2)
        items += docexp.corpus(docs.L_EDIT, 2, depth=1, lf=3)
    else:
        items = docexp.corpus(docs.L_FULL, 2, depth=1, variants=variants, modes=(True, False))
        items += docexp.corpus(docs.L_EDIT, 3, nmin=3, depth=1)
        items += docexp.corpus(docs.L_EDIT, 2, depth=2)
        items += docexp.corpus(docs.L_EDIT, 2, depth=1, lf=3) + docexp.corpus(docs.L_EDIT, 2, depth=1, lf=2)
    items += docexp.class_cases(1) + docexp.class_cases(1, lf=3)
    return items
