"""C03 - adding, removing or replacing a child leaves everything else untouched."""
from __future__ import annotations

from typing import Any

from autobean_refactor import models as M
from autobean_refactor.models.internal import fields as F, repeated as R

from .. import core, docexp, docs, ops, tree
from .c05 import op_sig

PROPERTY = 'C03'


def sepish(t: Any) -> bool:
    return isinstance(t, (M.Whitespace, M.Newline, M.Comma)) or not t.raw_text


def units(P: Any) -> list[tuple[str, Any]]:
    """direct children of P with repeated fields flattened into placeholder + items; for a CostSpec the children of its
    cost (braces + components), because every CostSpec accessor edits the component list"""
    out = []
    if isinstance(P, M.CostSpec):
        P = P.raw_cost
    for slot, ch in tree.children(P):
        if isinstance(ch, R.Repeated):
            out.append((slot + '#ph', ch.placeholder))
            for it in ch.items:
                out.append((slot + '#item', it))
        else:
            out.append((slot, ch))
    return out


def declared_separators(P: Any, slot: str) -> set[str]:
    if isinstance(P, M.CostSpec):
        P = P.raw_cost
    f = tree.class_fields(type(P)).get(slot.split('#')[0])
    out = set()
    if f is None:
        return out
    for name in ('separators', 'separators_before'):
        seps = getattr(f, name, None)
        if seps is not None:
            out.add(''.join(t.raw_text for t in seps))
    return out


def target_slots(P: Any, op: list) -> set[str]:
    attr = op[2]
    if isinstance(P, M.CostSpec):
        # the component list, and the braces ({} <-> {{}} is the documented effect of the per/total setters)
        return {'_components', '_left_brace', '_right_brace', '_dbl_left_brace', '_dbl_right_brace'}
    if attr in ('raw_payee', 'raw_narration', 'payee', 'narration'):
        return {'_string1', '_string2'}
    s = ops.slot_of_attr(P, attr)
    if s is not None:
        return {s}
    try:
        w = getattr(P, attr)
    except Exception:  # noqa
        return set()
    rep = ops.wrapper_repeated(w)
    if rep is not None:
        for slot, ch in tree.children(P):
            if ch is rep:
                return {slot}
    return set()


def value_level(op: list) -> bool:
    if op[0] == 'setval':
        return True
    if op[0] == 'seq':
        for a in op[4:]:
            if isinstance(a, list) and a and a[0] in ('s', 'n', 'b', 'd'):
                return True
            if isinstance(a, list) and a and isinstance(a[0], list) and a[0][0] in ('s', 'n', 'b', 'd'):
                return True
    if op[0] == 'map' and op[3] == 'set' and not (isinstance(op[5], list) and op[5][:2] == ['m', 'MetaItem']):
        return True
    return False


class WindowOracle(docexp.Oracle):
    name = 'window'
    kinds = {'setnode', 'setval', 'seq', 'map'}
    level = 'full'

    def op_filter(self, root, op):
        # reverse() through a value view assigns every element: there is no untouched sibling to judge
        return not (op[0] == 'seq' and op[3] == 'reverse')

    def pre(self, root, op):
        P = tree.resolve(root, tuple(op[1]))
        if P is None or isinstance(P, M.RawTokenModel):
            return None
        toks = [(t, t.raw_text) for t in root.token_store]
        idx = {id(t): i for i, (t, _) in enumerate(toks)}
        T = target_slots(P, op)
        us = []
        for slot, u in units(P):
            ut = u.tokens if not isinstance(u, M.RawTokenModel) else [u]
            us.append((slot, u, [(id(t), t.raw_text) for t in ut]))
        gaps = gaps_of(us, idx, toks)
        return {'P': P, 'toks': toks, 'idx': idx, 'first': idx[id(P.first_token)], 'last': idx[id(P.last_token)],
                'T': T, 'units': us, 'gaps': gaps}

    def post(self, root, op, ap, pre, res, case):
        if pre is None or ap.exc is not None:
            return
        P, T = pre['P'], pre['T']
        if not T:
            res.counters['no-target-slot'] += 1
            return
        where = f'{case["text"]!r} after {case["ops"]}: printed {tree.pr(root)!r}: '
        sig = op_sig(op)
        toks0 = pre['toks']
        toks1 = [(t, t.raw_text) for t in root.token_store]
        idx1 = {id(t): i for i, (t, _) in enumerate(toks1)}
        try:
            f1, l1 = idx1[id(P.first_token)], idx1[id(P.last_token)]
        except KeyError:
            return   # C05's business
        # 1. outside the parent
        before0, after0 = toks0[:pre['first']], toks0[pre['last'] + 1:]
        before1, after1 = toks1[:f1], toks1[l1 + 1:]
        if not same(before0, before1) or not same(after0, after1):
            res.fail(f'C03/outside-parent-changed[{sig}]', where + 'tokens outside the parent model changed')
            return
        # units
        us1 = []
        for slot, u in units(P):
            ut = u.tokens if not isinstance(u, M.RawTokenModel) else [u]
            us1.append((slot, u, [(id(t), t.raw_text) for t in ut]))
        pre_by_id = {id(u): (slot, tl) for slot, u, tl in pre['units']}
        post_by_id = {id(u): (slot, tl) for slot, u, tl in us1}
        # CostSpec accessors edit inside a component (the number of an amount, the currency of a compound amount): the
        # component that holds the edited part is "the child itself"
        vlevel = value_level(op) or isinstance(P, M.CostSpec)
        allowed0: set[int] = set()
        allowed1: set[int] = set()
        changed_survivors = 0
        for slot, u, tl in pre['units']:
            base = slot.split('#')[0]
            if id(u) in post_by_id:
                slot1, tl1 = post_by_id[id(u)]
                if tl1 != tl or slot1 != slot:
                    if base in T and (not slot.endswith('#item') or vlevel):
                        changed_survivors += 1
                        allowed0 |= {i for i, _ in tl}
                        allowed1 |= {i for i, _ in tl1}
                    else:
                        res.fail(f'C03/sibling-changed[{sig}]', where + f'sibling {slot} {"".join(x for _, x in tl)!r} '
                                 f'became {"".join(x for _, x in tl1)!r}')
                        return
            else:
                if base in T:
                    allowed0 |= {i for i, _ in tl}
                else:
                    res.fail(f'C03/sibling-lost[{sig}]', where + f'sibling in slot {slot} disappeared')
                    return
        for slot, u, tl in us1:
            if id(u) not in pre_by_id:
                if slot.split('#')[0] in T:
                    allowed1 |= {i for i, _ in tl}
                else:
                    res.fail(f'C03/sibling-appeared[{sig}]', where + f'new child in untouched slot {slot}')
                    return
        # 3b. a replacement keeps its place: exactly one unit went and one came in the same slot -> same rank among the units
        gone = [(slot, u) for slot, u, _ in pre['units'] if id(u) not in post_by_id]
        come = [(slot, u) for slot, u, _ in us1 if id(u) not in pre_by_id]
        if len(gone) == 1 and len(come) == 1 and gone[0][0] == come[0][0] and op[0] == 'setnode' and op[3] is not None \
                and type(gone[0][1]) is type(come[0][1]):       # (a cost amount turning into a compound amount is a re-shape)
            seq0 = [id(u) if id(u) != id(gone[0][1]) else 'X' for _, u, _ in pre['units']]
            seq1 = [id(u) if id(u) != id(come[0][1]) else 'X' for _, u, _ in us1]
            if seq0 != seq1:
                res.fail(f'C03/replaced-child-moved[{sig}]', where + f'the new {type(come[0][1]).__name__} does not stand where the replaced '
                         f'{type(gone[0][1]).__name__} stood (rank {seq0.index("X")} -> {seq1.index("X")} among the children)')
                return
        # 4. window: tokens that disappeared / appeared / changed text; survivors keep their relative order
        ids0 = {id(t): x for t, x in toks0}
        ids1 = {id(t): x for t, x in toks1}
        surv0 = [id(t) for t, _ in toks0 if id(t) in ids1]
        surv1 = [id(t) for t, _ in toks1 if id(t) in ids0]
        if surv0 != surv1:
            res.fail(f'C03/surviving-tokens-reordered[{sig}]', where + 'tokens that survive the edit changed their relative order')
            return
        touched = False
        for t, x in toks0:
            if id(t) in ids1 and ids1[id(t)] == x:
                continue
            touched = True
            if id(t) not in allowed0 and not sepish(t):
                res.fail(f'C03/window-loses-foreign-token[{sig}]', where + f'token {t!r} (not part of the replaced child, '
                         f'not a separator) was removed or changed')
                return
        for t, x in toks1:
            if id(t) in ids0 and ids0[id(t)] == x:
                continue
            touched = True
            if id(t) not in allowed1 and not sepish(t):
                res.fail(f'C03/window-adds-foreign-token[{sig}]', where + f'token {t!r} (not part of the new child, '
                         f'not a separator) appeared or changed')
                return
        if not touched:
            return
        # 5. every gap between present children that is not an old gap equals the declared separators
        gaps1 = gaps_of(us1, idx1, toks1)
        old = {tuple(g[2]) for g in pre['gaps']}
        old_texts = {g[3] for g in pre['gaps']}
        for (s_u, s_v, ids, text, lo, hi) in gaps1:
            if tuple(ids) in old:
                continue
            ok_texts = declared_separators(P, s_u) | declared_separators(P, s_v)
            if text in ok_texts:
                continue
            if not ids and not text:
                continue
            res.fail(f'C03/gap-not-old-nor-declared-separators[{sig}]',
                     where + f'between {s_u} and {s_v} the text is {text!r}: neither a gap that existed before '
                     f'{sorted(old_texts)} nor the declared separators {sorted(ok_texts)}')
            return


def same(x, y) -> bool:
    return len(x) == len(y) and all(p[0] is q[0] and p[1] == q[1] for p, q in zip(x, y))


def gaps_of(us, idx, toks):
    """visible token runs between consecutive present units: (slot_u, slot_v, token ids, text, lo, hi)"""
    spans = []
    for slot, u, tl in us:
        if not tl:
            continue
        try:
            spans.append((idx[tl[0][0]], idx[tl[-1][0]], slot))
        except KeyError:
            continue
    spans.sort()
    out = []
    for (a0, a1, s_u), (b0, b1, s_v) in zip(spans, spans[1:]):
        ids = [id(t) for t, x in toks[a1 + 1:b0] if x]
        text = ''.join(x for t, x in toks[a1 + 1:b0])
        out.append((s_u, s_v, ids, text, a1 + 1, b0 - 1))
    return out


ORACLE = WindowOracle()
run_case = docexp.make_run_case(ORACLE)


def main(run: core.Run) -> None:
    tier = run.tier
    run.rule = ('every node-level and value-level setter and every MutableSequence/Mapping call (all index / slice / step '
                'arguments incl. negative, reversed, out of range; 0-3 donors) on every model of every default-parsed corpus '
                'document; oracle = window + sibling + gap clauses; non-trivial = distinct canonical post-states')
    run.assumptions = ['default-parsed documents only (with auto_claim_comments=False unowned comments sit inside separators)',
                       'clause (gap): a gap touched by the edit is token-identical to an old gap or equals the separators the field declares']
    if tier == 'quick':
        items = docexp.corpus(docs.L_EDIT, 2, depth=1) + docexp.corpus(docs.L_EDIT, 3, nmin=3, depth=1, level='basic')
        d2 = docexp.corpus(docs.L_EDIT, 1, depth=2, level='basic')
        run.bounds.update({'depth1': 'docs <= 2 lines with the full argument menu, 3-line docs with in-range arguments',
                           'depth2': '1-line docs, in-range arguments'})
    else:
        run.bounds.update({'depth1': 'docs <= 3 lines, full argument menu, also at load factor 3 for <= 2 lines', 'depth2': '1-line docs with the full argument menu, 2-line docs with in-range arguments'})
        items = docexp.corpus(docs.L_EDIT, 3, depth=1) + docexp.corpus(docs.L_EDIT, 2, depth=1, lf=3)
        d2 = docexp.corpus(docs.L_EDIT, 1, depth=2) + docexp.corpus(docs.L_EDIT, 2, nmin=2, depth=2, level='basic')
    items += docexp.class_cases(1, level=('basic' if tier == 'quick' else 'full'))
    run.bounds['class_corpus'] = 'one minimal and one full document per directive class (38 documents), depth 1'
    docexp.bfs(run, ORACLE, items, 'depth-1 corpus')
    minimal = ['2000-01-01 *\n', '2000-01-01 open Assets:Foo\n', '2000-01-01 note Assets:Foo "n"\n', '2000-01-01 custom "x"\n']
    if tier != 'quick':
        minimal += [t + '\n' for t in docs.L_CLASSES[::2] if '\n' not in t]
    d2 += [{'text': t, 'mode': True, 'depth': 2, 'level': 'basic'} for t in dict.fromkeys(minimal)]
    docexp.bfs(run, ORACLE, d2, 'depth-2 corpus')
    # histories of three steps confined to one repeated field and its aliasing views
    fc = docexp.focus_cases(3, 'basic', docexp.FOCUS_SUBJECTS[:1] if tier == 'quick' else None)
    docexp.bfs(run, ORACLE, fc, 'depth-3 single-field histories')
    run.bounds['depth3'] = f'{len(fc)} single-field subjects (one repeated field + its views), in-range arguments'
