"""Looking at a model tree without trusting it: child enumeration from the field descriptors,
the structural invariant (check_tree), signatures and snapshots."""
from __future__ import annotations

import io
from typing import Any, Iterator, Optional

from autobean_refactor import models as M, printer
from autobean_refactor.models import internal
from autobean_refactor.models.internal import fields as F, repeated as R

Placeholder = internal.Placeholder
TRIVIA = (M.Whitespace, M.Newline, M.Comma)


def pr(model: M.RawModel) -> str:
    return printer.print_model(model, io.StringIO()).getvalue()


def safe_pr(model: Any) -> str:
    """printing for failure messages: a corrupted model must not turn a finding into a harness error"""
    try:
        return pr(model)
    except Exception as e:  # noqa
        return f'<unprintable: {type(e).__name__}: {e}>'


def store_text(store: Any) -> str:
    return ''.join(t.raw_text for t in store)


_FIELDS_CACHE: dict[type, dict[str, F.field]] = {}
_DATA_CACHE: dict[type, list[str]] = {}


def class_fields(cls: type) -> dict[str, F.field]:
    got = _FIELDS_CACHE.get(cls)
    if got is None:
        got = {}
        for k in reversed(cls.__mro__):
            for name, v in vars(k).items():
                if isinstance(v, F.field):
                    got[name] = v
        if '_trailing_comment' in got:
            got['_trailing_comment'] = got.pop('_trailing_comment')
        _FIELDS_CACHE[cls] = got
    return got


def data_fields(cls: type) -> list[str]:
    got = _DATA_CACHE.get(cls)
    if got is None:
        got = []
        for k in reversed(cls.__mro__):
            for name, v in vars(k).items():
                if isinstance(v, F.data_field) and not isinstance(v, F.field) and name not in got:
                    got.append(name)
        _DATA_CACHE[cls] = got
    return got


def children(model: M.RawModel) -> list[tuple[str, M.RawModel]]:
    """Ordered (slot, child) pairs of the children that are present."""
    if isinstance(model, M.RawTokenModel):
        return []
    if isinstance(model, R.Repeated):
        return [('placeholder', model.placeholder)] + [(f'items[{i}]', x) for i, x in enumerate(model.items)]
    if isinstance(model, (M.NumberAddExpr, M.NumberMulExpr)):
        out = []
        ops, opr = model.raw_ops, model.raw_operands
        for i, o in enumerate(opr):
            out.append((f'operand[{i}]', o))
            if i < len(ops):
                out.append((f'op[{i}]', ops[i]))
        return out
    out = []
    d = model.__dict__
    for name in class_fields(type(model)):
        v = d.get(name)
        if v is not None:
            out.append((name, v))
    return out


def walk(root: M.RawModel, path: tuple = ()) -> Iterator[tuple[tuple, M.RawModel]]:
    yield path, root
    for name, c in children(root):
        yield from walk(c, path + (name,))


def resolve(root: M.RawModel, path: tuple) -> Optional[M.RawModel]:
    cur = root
    for name in path:
        for n, c in children(cur):
            if n == name:
                cur = c
                break
        else:
            return None
    return cur


def is_trivia(t: M.RawTokenModel) -> bool:
    if isinstance(t, TRIVIA):
        return True
    if isinstance(t, M.BlockComment) and not t.claimed:
        return True
    return False


def check_tree(root: M.RawModel, *, complete: bool = True) -> list[tuple[str, str]]:
    """The C05 invariant. Returns (clause key, text) pairs; empty when the tree is a valid syntax tree
    of its store. complete=True additionally demands that root spans its whole store when it is a File
    and that every non-trivia token of the store *inside root's span* is owned by exactly one leaf."""
    errs: list[tuple[str, str]] = []
    store = root.token_store
    if store is None:
        if isinstance(root, M.RawTokenModel):
            return errs
        return [('no-store', 'tree model without a token store')]
    order: dict[int, int] = {}
    for i, t in enumerate(store):
        if id(t) in order:
            errs.append(('token-twice-in-store', f'token {t!r} occurs at positions {order[id(t)]} and {i} of the store'))
            return errs
        order[id(t)] = i
    for t in store:
        try:
            k = store.get_index(t)
        except Exception as e:  # noqa
            errs.append(('token-handle-stale', f'get_index({t!r}) raises {type(e).__name__}: {e}'))
            return errs
        if k != order[id(t)]:
            errs.append(('token-handle-stale', f'token {t!r} at position {order[id(t)]} reports index {k}'))
            return errs
    owned: dict[int, str] = {}

    def rec(node: M.RawModel, path: str) -> Optional[tuple[int, int]]:
        if isinstance(node, M.RawTokenModel):
            if node.token_store is not store or id(node) not in order:
                errs.append(('leaf-not-in-store', f'{path}: leaf token {node!r} is not in the root store'))
                return None
            if id(node) in owned:
                errs.append(('token-owned-twice', f'{path}: token {node!r} also owned by {owned[id(node)]}'))
            owned[id(node)] = path
            k = order[id(node)]
            return (k, k)
        if node.token_store is not store:
            errs.append(('model-on-other-store', f'{path}: {type(node).__name__} lives on another token store'))
        try:
            ft, lt = node.first_token, node.last_token
        except Exception as e:  # noqa
            errs.append(('first-last-raises', f'{path}: first/last_token raises {type(e).__name__}: {e}'))
            ft = lt = None
        span = None
        if ft is None or lt is None or id(ft) not in order or id(lt) not in order:
            errs.append(('first-last-not-in-store', f'{path}: first/last token not in the root store'))
        else:
            span = (order[id(ft)], order[id(lt)])
            if span[0] > span[1]:
                errs.append(('first-after-last', f'{path}: first_token (#{span[0]}) after last_token (#{span[1]})'))
        spans = []
        for name, ch in children(node):
            sp = rec(ch, f'{path}.{name}')
            if sp is not None:
                spans.append((name, sp))
        for (n1, s1), (n2, s2) in zip(spans, spans[1:]):
            if not s1[1] < s2[0]:
                errs.append(('children-overlap-or-out-of-order',
                             f'{path}: children {n1}{s1} / {n2}{s2} overlap or are out of order'))
        if span is not None:
            for n, s in spans:
                if s[0] < span[0] or s[1] > span[1]:
                    errs.append(('child-outside-parent', f'{path}: child {n}{s} outside parent span {span}'))
        return span

    top = rec(root, type(root).__name__)
    if top is not None:
        # a block comment inside the tree's span is flagged `claimed` exactly when some slot of the tree owns it
        lo0, hi0 = top
        for t in store:
            if isinstance(t, M.BlockComment) and lo0 <= order[id(t)] <= hi0 and t.claimed != (id(t) in owned):
                errs.append(('claimed-flag-disagrees-with-ownership',
                             f'comment {t.raw_text!r}: claimed={t.claimed} but ' + (f'owned by {owned[id(t)]}' if id(t) in owned else 'owned by no slot')))
                break
    if complete and top is not None:
        lo, hi = top
        for t in store:
            k = order[id(t)]
            if k < lo or k > hi or id(t) in owned or is_trivia(t):
                continue
            errs.append(('significant-token-unowned', f'token #{k} {t!r} is owned by no leaf of the tree'))
    return errs


# ---------------------------------------------------------------------------------------------
# signatures

def tok_sig(t: M.RawTokenModel, *, claimed: bool = False) -> tuple:
    if claimed and isinstance(t, M.BlockComment):
        return (type(t).__name__, t.raw_text, t.claimed)
    return (type(t).__name__, t.raw_text)


def signature(model: Optional[M.RawModel]) -> Any:
    """Full structural signature: classes, slot names, token texts, data fields."""
    if model is None:
        return None
    if isinstance(model, M.RawTokenModel):
        return tok_sig(model)
    kids = tuple((n, signature(c)) for n, c in children(model))
    data = tuple((n, model.__dict__.get(n)) for n in data_fields(type(model)))
    return (type(model).__name__, kids, data)


_STRING_SLOTS = ('_string0', '_string1', '_string2')


def cmp_signature(model: Optional[M.RawModel]) -> Any:
    """Signature for print->parse comparison: block-comment attribution, zero-width marks, trailing blanks
    of inline comments and data fields (indent_by) are left out; a transaction's strings are folded to
    (payee, narration) order."""
    if model is None:
        return None
    if isinstance(model, M.RawTokenModel):
        if isinstance(model, M.InlineComment):
            return ('InlineComment', model.raw_text.rstrip(' \t'))
        return tok_sig(model)
    kids = []
    strings = []
    for n, c in children(model):
        if isinstance(c, M.BlockComment) or isinstance(c, Placeholder):
            continue
        if isinstance(c, M.RawTokenModel) and not c.raw_text:
            continue
        if n in _STRING_SLOTS and isinstance(model, M.Transaction):
            strings.append(cmp_signature(c))
            continue
        if isinstance(model, R.Repeated):
            n = 'item'
        kids.append((n, cmp_signature(c)))
    if strings:
        kids.append(('strings', tuple(strings)))
    return (type(model).__name__, tuple(kids))


def comment_lines(store: Any) -> list[str]:
    """Ordered list of comment texts in the document, attribution aside."""
    out = []
    for t in store:
        if isinstance(t, M.BlockComment):
            out.extend(line.strip() for line in t.raw_text.split('\n'))
        elif isinstance(t, M.InlineComment):
            out.append(t.raw_text.rstrip(' \t'))
    return out


def wrappers_state(root: M.RawModel) -> tuple:
    """Cached view state that later calls depend on: per model, the cached wrapper attributes with their
    index tables."""
    out = []
    for path, m in walk(root):
        if isinstance(m, M.RawTokenModel):
            continue
        for k, v in m.__dict__.items():
            idx = getattr(v, '_raw_indexes', None)
            if idx is not None:
                # also the hidden wiring: is this table still the list object that the update handler maintains?
                hs = getattr(getattr(v, '_raw_wrapper', None), '_update_handlers', None)
                wired = None if hs is None else any(getattr(h, '_raw_indexes', None) is idx for h in hs)
                out.append((path, k, tuple(idx), wired))
            elif hasattr(v, '_update_handlers'):
                out.append((path, k, len(v._update_handlers)))
    return tuple(out)


def snapshot(root: M.RawModel, *, ids: bool = True) -> tuple:
    """Everything observable about a document: text, token identities/classes/texts/claimed flags, tree
    signature (with ownership), view index tables."""
    store = root.token_store
    toks = tuple(((id(t) if ids else 0), type(t).__name__, t.raw_text, getattr(t, 'claimed', None))
                 for t in (store if store is not None else []))
    return (toks, signature(root), wrappers_state(root))


def state_key(root: M.RawModel) -> int:
    """Canonical state hash for deduplication of histories (identity abstracted to position)."""
    from . import core
    return core.h64(snapshot(root, ids=False))


def glued_pairs(store: Any) -> tuple[set[tuple[int, int]], set[int]]:
    """(pairs of visible tokens that touch - no blank or line break between them, ids of all visible tokens)"""
    pairs: set[tuple[int, int]] = set()
    ids: set[int] = set()
    prev = None
    gap = True
    for t in store:
        if not t.raw_text:
            continue
        if isinstance(t, (M.Whitespace, M.Newline)):
            gap = True
            continue
        ids.add(id(t))
        if prev is not None and not gap:
            pairs.add((id(prev), id(t)))
        prev, gap = t, False
    return pairs, ids


def newly_glued(pre: tuple[set, set], store: Any) -> list[tuple[Any, Any]]:
    """pairs of tokens that both existed before the edit, did not touch then, and touch now (the edit took away what
    separated them)"""
    pre_pairs, pre_ids = pre
    by_id = {id(t): t for t in store}
    now, _ = glued_pairs(store)
    return [(by_id[a], by_id[b]) for a, b in now if a in pre_ids and b in pre_ids and (a, b) not in pre_pairs]
