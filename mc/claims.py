"""Comment-attribution machinery shared by C04 / C14 / C05: ownership maps, the token-level reference
attribution, and a per-document fixpoint BFS over claim / unclaim / auto-claim calls."""
from __future__ import annotations

import re
import copy
from typing import Any, Optional

from autobean_refactor import models as M
from autobean_refactor.models.internal import (interleaving_comments as IC, repeated as R, surrounding_comments as SC)

from . import core, docs, ops, tree

LINEBREAK_END = re.compile(r'\r*\n\Z')
LINEBREAK_START = re.compile(r'\r*\n')


def offsets(store: Any) -> tuple[dict[int, int], dict[int, int], str]:
    start, end, parts, off = {}, {}, [], 0
    for t in store:
        start[id(t)] = off
        off += len(t.raw_text)
        end[id(t)] = off
        parts.append(t.raw_text)
    return start, end, ''.join(parts)


def core_span(m: Any, start: dict, end: dict) -> Optional[tuple[int, int]]:
    """character span of a commentable model without its leading / trailing comments"""
    kids = [(n, c) for n, c in tree.children(m) if n not in ('_leading_comment', '_trailing_comment')]
    if not kids:
        return None
    try:
        return start[id(kids[0][1].first_token)], end[id(kids[-1][1].last_token)]
    except KeyError:
        return None


def is_indented_model(m: Any) -> bool:
    return isinstance(m.__dict__.get('_indent'), M.Indent)


def owners(root: Any) -> dict[int, list[tuple]]:
    """id(BlockComment) -> list of owner slots (kind, character offset of the owner's core start | parent path)"""
    st, en, _ = offsets(root.token_store)
    out: dict[int, list[tuple]] = {}
    for path, m in tree.walk(root):
        if isinstance(m, M.RawTokenModel):
            continue
        if isinstance(m, R.Repeated):
            for it in m.items:
                if isinstance(it, M.BlockComment):
                    out.setdefault(id(it), []).append(('item', path))
            continue
        d = m.__dict__
        for slot, kind in (('_leading_comment', 'leading'), ('_trailing_comment', 'trailing')):
            c = d.get(slot)
            if isinstance(c, M.BlockComment):
                sp = core_span(m, st, en)
                out.setdefault(id(c), []).append((kind, type(m).__name__, sp[0] if sp else None))
    return out


def attribution(root: Any) -> dict[int, tuple]:
    """comment start offset -> owner description comparable across parses"""
    st, en, _ = offsets(root.token_store)
    own = owners(root)
    out = {}
    for t in root.token_store:
        if isinstance(t, M.BlockComment):
            o = own.get(id(t), [])
            desc = tuple(sorted((x[0],) + tuple(x[1:]) if x[0] != 'item' else ('item',) for x in o))
            out[st[id(t)]] = (desc, t.claimed)
    return out


def check_ownership(root: Any, res: core.CaseResult, where: str, *, all_owned: bool) -> bool:
    own = owners(root)
    for t in root.token_store:
        if not isinstance(t, M.BlockComment):
            continue
        n = len(own.get(id(t), []))
        if n > 1:
            res.fail('C14/comment-owned-twice', where + f'comment {t.raw_text!r} is owned by {own[id(t)]}')
            return False
        if t.claimed != (n == 1):
            res.fail('C14/claimed-flag-disagrees-with-ownership', where + f'comment {t.raw_text!r}: claimed={t.claimed} but {n} owner(s)')
            return False
        if all_owned and n == 0:
            res.fail('C14/comment-unowned-after-default-parse', where + f'comment {t.raw_text!r} has no owner')
            return False
    return True


def reference_attribution(root_unclaimed: Any) -> dict[int, tuple]:
    """Token/text-level attribution rules R1-R3 (DESIGN.md C14), computed without calling any claim
    function. Returns comment start offset -> ('leading'|'trailing', class name, owner core start) | ('item',)"""
    st, en, text = offsets(root_unclaimed.token_store)
    models = []
    for path, m in tree.walk(root_unclaimed):
        if isinstance(m, SC.SurroundingCommentsMixin):
            sp = core_span(m, st, en)
            if sp is not None:
                models.append((m, sp, len(path)))
    out = {}
    for t in root_unclaimed.token_store:
        if not isinstance(t, M.BlockComment):
            continue
        cs, ce = st[id(t)], en[id(t)]
        indented = t.raw_text[:1] in (' ', '\t')
        verdict: tuple = ('item',)
        mm = LINEBREAK_START.match(text, ce)
        lead = None
        if mm:
            p = mm.end()
            cands = [(m, sp, depth) for m, sp, depth in models if sp[0] == p and is_indented_model(m) == indented]
            if cands:
                m, sp, _ = min(cands, key=lambda x: x[2])
                lead = ('leading', type(m).__name__, sp[0])
        if lead is not None:
            verdict = lead
        else:
            mm = LINEBREAK_END.search(text[:cs])
            if mm:
                q = mm.start()
                cands = [(m, sp, depth) for m, sp, depth in models if sp[1] == q and is_indented_model(m) == indented]
                if cands:
                    m, sp, _ = min(cands, key=lambda x: x[2])    # outermost
                    verdict = ('trailing', type(m).__name__, sp[0])
        out[cs] = verdict
    return out


# ------------------------------------------------------------------------------------------------
# claim alphabet

def claim_ops(root: Any) -> list[list]:
    out = []
    comments = [t for t in root.token_store if isinstance(t, M.BlockComment)]
    for path, m in tree.walk(root):
        if isinstance(m, (M.RawTokenModel, R.Repeated)):
            continue
        p = list(path)
        if isinstance(m, SC.SurroundingCommentsMixin):
            for meth in ('claim_leading_comment', 'unclaim_leading_comment', 'claim_trailing_comment', 'unclaim_trailing_comment'):
                out.append(['claim', p, meth])
        out.append(['claim', p, 'auto_claim_comments'])
        for attr, desc in ops.descriptors(type(m)).items():
            if isinstance(desc, IC.repeated_node_with_interleaving_comments_property):
                out.append(['claimseq', p, attr, 'claim'])
                out.append(['claimseq', p, attr, 'unclaim'])
                out.append(['claimseq1', p, attr, 'claim', []])        # an empty selection selects nothing
                out.append(['claimseq1', p, attr, 'unclaim', []])
                for k in range(len(comments)):
                    out.append(['claimseq1', p, attr, 'claim', k])
                    out.append(['claimseq1', p, attr, 'unclaim', k])
                    out.append(['claimseq1', p, attr, 'claim', [k, 'foreign']])   # one good, one that cannot be found
    return out


def apply_claim(root: Any, op: list) -> tuple[Any, Optional[BaseException]]:
    m = tree.resolve(root, tuple(op[1]))
    if m is None:
        return 'unresolved', None
    try:
        if op[0] == 'claim':
            return getattr(m, op[2])(), None
        w = getattr(m, op[2])
        if op[0] == 'claimseq':
            return (w.claim_interleaving_comments() if op[3] == 'claim' else w.unclaim_interleaving_comments()), None
        comments = [t for t in root.token_store if isinstance(t, M.BlockComment)]
        sel = op[4] if isinstance(op[4], list) else [op[4]]
        cs = [M.BlockComment.from_value('foreign') if k == 'foreign' else comments[k] for k in sel]
        return (w.claim_interleaving_comments(cs) if op[3] == 'claim' else w.unclaim_interleaving_comments(cs)), None
    except Exception as e:  # noqa
        return None, e


def visible(root: Any) -> tuple[list, list]:
    vis, zero = [], []
    for t in root.token_store:
        (vis if t.raw_text else zero).append(t)
    return vis, zero


def claim_state_key(root: Any) -> int:
    toks = tuple((type(t).__name__, t.raw_text, getattr(t, 'claimed', None)) for t in root.token_store)
    return core.h64((toks, tree.signature(root)))


def run_claim_trace(case: dict, clauses: set[str], *, check_from: int = 0) -> tuple[core.CaseResult, Optional[Any]]:
    """case = {text, mode, ops}: replay claim calls on a fresh parse; clauses select the oracles:
    'text' (C04), 'owner' (C14 invariant), 'tree' (C05 check_tree), 'reads' (C04 read sweep)."""
    res = core.CaseResult()
    from . import store as store_mod
    store_mod.set_load_factor(case.get('lf'))
    root = docs.try_parse(case['text'], M.File, case.get('mode', True))
    if root is None:
        res.outcomes['rejected'] += 1
        return res, None
    text = case['text']
    vis0, zero0 = visible(root)
    zero_ids0 = sorted(id(t) for t in zero0)
    for step, op in enumerate(case['ops']):
        checked = step >= check_from
        before_key = claim_state_key(root) if checked else None
        result, exc = apply_claim(root, op)
        if result == 'unresolved':
            res.outcomes['unresolved'] += 1
            return res, None
        if not checked:
            continue
        res.transitions += 1
        res.outcomes[f'{op[2] if op[0] == "claim" else op[2] + "." + op[3]}:{"raised " + type(exc).__name__ if exc else "ok"}'] += 1
        where = f'{text!r} (auto_claim_comments={case.get("mode", True)}) after {case["ops"][:step + 1]}: '
        site = op[2] if op[0] == 'claim' else f'{op[2]}.{op[3]}'
        sub = {'text': text, 'mode': case.get('mode', True), 'ops': case['ops'][:step + 1]}
        if case.get('lf') is not None:
            sub['lf'] = case['lf']
        if exc is not None and not isinstance(exc, ValueError):
            res.fail(f'C04/claim-call-raises[{site}]', where + f'{type(exc).__name__}: {exc}', sub)
            return res, None
        if 'text' in clauses:
            vis1, zero1 = visible(root)
            printed = tree.pr(root)
            if printed != text:
                res.fail(f'C04/text-changed-by-attribution-call[{site}]', where + f'printed {printed!r}', sub)
                return res, None
            if len(vis1) != len(vis0) or any(a is not b for a, b in zip(vis1, vis0)):
                res.fail(f'C04/visible-tokens-changed-by-attribution-call[{site}]', where + 'visible token identity/order changed', sub)
                return res, None
            if sorted(id(t) for t in zero1) != zero_ids0:
                res.fail(f'C04/zero-width-tokens-created-or-dropped[{site}]', where + 'the multiset of zero-width tokens changed', sub)
                return res, None
        if 'owner' in clauses:
            n = len(res.violations)
            check_ownership(root, res, where, all_owned=False)
            for k in range(n, len(res.violations)):
                key, txt, _ = res.violations[k]
                res.violations[k] = (key, txt, sub)
            if len(res.violations) > n:
                return res, None
            # the attribution (owner and claimed flag of every comment) is part of the document: a deep copy taken in this
            # state must carry the same one (a copy that raises is C11's finding, not judged here)
            try:
                cp = copy.deepcopy(root)
            except Exception:  # noqa
                cp = None
                res.counters['deep copy of the state raised (left to C11)'] += 1
            if cp is not None:
                a0, a1 = attribution(root), attribution(cp)
                if a0 != a1:
                    bad = sorted(k for k in set(a0) | set(a1) if a0.get(k) != a1.get(k))[0]
                    res.fail(f'C14/deep-copy-attribution-differs[{site}]', where + f'comment at offset {bad}: (owners, claimed) = '
                             f'{a0.get(bad)} in the document, {a1.get(bad)} in its deep copy', sub)
                    return res, None
        if 'tree' in clauses:
            errs = tree.check_tree(root)
            if errs:
                res.fail(f'C05/{errs[0][0]}[{site}]', where + errs[0][1], sub)
                return res, None
        if exc is None and op[0] == 'claimseq1' and op[4] == [] and claim_state_key(root) != before_key:
            res.fail(f'C14/empty-selection-changes-attribution[{site}]', where + 'a call naming no comment changed the attribution', sub)
            return res, None
        if exc is not None and claim_state_key(root) != before_key:
            res.fail(f'{"C14" if "owner" in clauses else "C19"}/refused-claim-changed-attribution[{site}]',
                     where + f'raised {type(exc).__name__}({exc}) but claimed flags / ownership changed', sub)
            return res, None
        if 'reads' in clauses:
            from .props import c04
            if not c04.read_sweep(root, text, res, where, sub):
                return res, None
    return res, root


def expand_claims(args: tuple) -> tuple:
    case, hist, clauses = args
    shard = core.Shard()
    base = {'text': case['text'], 'mode': case.get('mode', True)}
    if case.get('lf') is not None:
        base['lf'] = case['lf']
    r0, root = run_claim_trace(dict(base, ops=hist), clauses, check_from=len(hist))
    succ = []
    if root is None:
        return succ, shard
    k0 = claim_state_key(root)
    for op in claim_ops(root):
        c = dict(base, ops=hist + [op])
        try:
            r, end = run_claim_trace(c, clauses, check_from=len(hist))
        except Exception:  # noqa
            import traceback
            shard.errors.append(f'harness error on {c}:\n{traceback.format_exc()}')
            continue
        if end is not None:
            k1 = claim_state_key(end)
            r.states.add(k1)
            if k1 != k0:
                r.nontrivial.add(k1)
                succ.append((k1, hist + [op]))
                if r.sample is None:
                    r.sample = {'text': c['text'], 'mode': c['mode'], 'ops': c['ops'], 'attribution': sorted(attribution(end).items())}
        shard.add(c, r)
    from . import store as store_mod
    store_mod.set_load_factor(None)
    return succ, shard


def claims_bfs(run: core.Run, cases: list[dict], clauses: set[str], label: str, max_states_per_doc: int = 400) -> None:
    """fixpoint BFS per document over the claim alphabet (state = attribution signature + token order)"""
    import multiprocessing
    import time
    seen: list[set] = [set() for _ in cases]
    frontier = [(ci, []) for ci in range(len(cases))]
    ctx = multiprocessing.get_context('fork')
    depth = 0
    t0 = time.time()
    t_before = run.total.transitions
    capped = 0
    with ctx.Pool(core.NPROC) as pool:
        while frontier:
            depth += 1
            work = [(cases[ci], hist, clauses) for ci, hist in frontier]
            nxt = []
            chunk = max(1, min(8, len(work) // (core.NPROC * 8) or 1))
            for (succ, shard), (ci, hist) in zip(pool.imap(expand_claims, work, chunksize=chunk), frontier):
                run.total.merge(shard)
                for k1, h2 in succ:
                    if k1 not in seen[ci]:
                        if len(seen[ci]) >= max_states_per_doc:
                            capped += 1
                            continue
                        seen[ci].add(k1)
                        nxt.append((ci, h2))
            run.log(f'{label} depth {depth}: {len(frontier)} states expanded, {len(nxt)} new, '
                    f'{run.total.transitions - t_before} transitions, {run.total.violation_count} violating observations, {time.time() - t0:.1f}s')
            frontier = nxt
            if run.total.errors or depth >= 40:
                break
    if capped:
        run.caps_hit.append(f'{label}: per-document state cap {max_states_per_doc} dropped {capped} successor states')
    run.bounds[label] = {'documents': len(cases), 'depth_to_fixpoint': depth, 'fixpoint': not frontier and not capped,
                         'max_states_in_one_document': max((len(s) for s in seen), default=0),
                         'total_states': sum(len(s) for s in seen)}


def bfs_corpus(n: int, *, with_txn4: bool = False) -> list[dict]:
    """(text, mode) pairs with at least one comment: all layouts <= n lines over the comment alphabet; with_txn4 adds the
    4-line layouts that start with a transaction header (header + meta / comment / posting combinations)"""
    texts = list(docs.texts(docs.L_COMMENT, n, nmin=1, variants=(('lf', True),)))
    if with_txn4 and n < 4:
        import itertools
        hdr = docs.L_COMMENT[0]
        body = [x for x in docs.L_COMMENT if x not in (hdr, docs.L_COMMENT[1])]
        for seq in itertools.product(body, repeat=3):
            texts.append(docs.join_lines([hdr, *seq], 'lf', True))
    out = []
    seen = set()
    for t in texts:
        if t in seen:
            continue
        seen.add(t)
        for mode in (True, False):
            root = docs.try_parse(t, M.File, mode)
            if root is not None and any(isinstance(x, M.BlockComment) for x in root.token_store):
                out.append({'text': t, 'mode': mode})
    return out
