"""Common runner machinery: sharded exhaustive enumeration, violation bookkeeping, known
findings, replay files and evidence.

Every property module exposes

    PROPERTY   'Cnn'
    cases(tier)          -> iterable of JSON-serialisable *cases* (closed-world inputs), or
    explore(run)         -> custom exploration (BFS engines)
    run_case(case)       -> CaseResult   (executes the real implementation, applies the oracles)

`run_case` is the only place where a verdict is made; exploration and `--replay` both go through it, so
a replay file is simply the JSON of the case plus the finding key observed.
"""
from __future__ import annotations

import collections
import hashlib
import json
import multiprocessing
import os
import sys
import time
import traceback
from typing import Any, Callable, Iterable, Optional

VERIF = os.path.dirname(os.path.dirname(os.path.abspath(__file__)))
NPROC = int(os.environ.get('VERIF_JOBS', '0')) or min(16, os.cpu_count() or 1)
# where evidence/ and replays/ are written (override only for trial runs against modified trees)
OUT = os.environ.get('VERIF_OUT') or VERIF


def h64(obj: Any) -> int:
    """Stable 64-bit hash of a canonical (repr-able) object."""
    return int.from_bytes(hashlib.blake2b(repr(obj).encode('utf-8', 'surrogatepass'), digest_size=8).digest(), 'big')


class CaseResult:
    """What one execution observed."""
    def __init__(self) -> None:
        self.violations: list[tuple] = []   # (finding key, human text, minimal replay case or None)
        self.transitions = 0                           # API calls executed under an oracle
        self.states: set[int] = set()                  # hashes of canonical states seen
        self.nontrivial: set[int] = set()              # hashes of distinct non-trivial post-states / inputs
        self.outcomes: collections.Counter = collections.Counter()
        self.counters: collections.Counter = collections.Counter()
        self.sample: Any = None

    def fail(self, key: str, text: str, case: Any = None) -> None:
        self.violations.append((key, text, case))


class Shard:
    """Aggregated result of many cases (mergeable across worker processes)."""

    def __init__(self) -> None:
        self.evaluations = 0
        self.transitions = 0
        self.states: set[int] = set()
        self.nontrivial: set[int] = set()
        self.outcomes: collections.Counter = collections.Counter()
        self.counters: collections.Counter = collections.Counter()
        self.samples: list[Any] = []
        # finding key -> (size, case, text): smallest counterexample per key
        self.violations: dict[str, tuple[int, Any, str]] = {}
        self.violation_count = 0
        self.errors: list[str] = []

    def add(self, case: Any, res: CaseResult) -> None:
        self.evaluations += 1
        self.transitions += res.transitions
        self.states |= res.states
        self.nontrivial |= res.nontrivial
        self.outcomes.update(res.outcomes)
        self.counters.update(res.counters)
        if res.sample is not None and len(self.samples) < 3:
            self.samples.append(res.sample)
        for key, text, sub in res.violations:
            self.violation_count += 1
            if sub is not None:
                case = sub
            size = len(json.dumps(case, default=str))
            cur = self.violations.get(key)
            if cur is None or size < cur[0]:
                self.violations[key] = (size, case, text)

    def merge(self, other: 'Shard') -> None:
        self.evaluations += other.evaluations
        self.transitions += other.transitions
        self.states |= other.states
        self.nontrivial |= other.nontrivial
        self.outcomes.update(other.outcomes)
        self.counters.update(other.counters)
        for s in other.samples:
            if len(self.samples) < 6:
                self.samples.append(s)
        for key, v in other.violations.items():
            cur = self.violations.get(key)
            if cur is None or v[0] < cur[0]:
                self.violations[key] = v
        self.violation_count += other.violation_count
        self.errors.extend(other.errors)


_WORK: dict[str, Any] = {}


def _run_chunk(args: tuple[int, int]) -> Shard:
    lo, hi = args
    run_case: Callable[[Any], CaseResult] = _WORK['run_case']
    items = _WORK['items']
    shard = Shard()
    for idx in range(lo, hi):
        case = items[idx]
        try:
            res = run_case(case)
        except Exception:
            shard.errors.append(f'harness error on case {json.dumps(case, default=str)[:400]}:\n{traceback.format_exc()}')
            if len(shard.errors) > 5:
                break
            continue
        shard.add(case, res)
    return shard


def pmap_cases(run_case: Callable[[Any], CaseResult], items: list[Any], *, chunk: int = 0,
               jobs: int = 0) -> Shard:
    """Run every case (all of them: this is enumeration, not sampling) over worker processes."""
    jobs = jobs or NPROC
    total = Shard()
    n = len(items)
    if n == 0:
        return total
    _WORK['run_case'] = run_case
    _WORK['items'] = items
    if jobs <= 1 or n < 32:
        total.merge(_run_chunk((0, n)))
        return total
    chunk = chunk or max(1, min(2000, n // (jobs * 8) or 1))
    ranges = [(i, min(n, i + chunk)) for i in range(0, n, chunk)]
    ctx = multiprocessing.get_context('fork')
    with ctx.Pool(jobs) as pool:
        for shard in pool.imap_unordered(_run_chunk, ranges):
            total.merge(shard)
    return total


# --------------------------------------------------------------------------------------------
# known findings

class KnownFindings:
    def __init__(self, path: Optional[str] = None) -> None:
        self.known: dict[tuple[str, str], str] = {}
        self.fixed: list[str] = []
        path = path or os.path.join(VERIF, 'KNOWN_FINDINGS.txt')
        if not os.path.exists(path):
            return
        for line in open(path, encoding='utf-8'):
            line = line.strip()
            if not line or line.startswith('#'):
                continue
            if line.startswith('known:'):
                parts = line[len('known:'):].split(None, 2)
                kv = dict(p.split('=', 1) for p in parts[:2])
                self.known[(kv['property'], kv['key'])] = parts[2] if len(parts) > 2 else ''
            elif line.startswith('fixed:'):
                self.fixed.append(line)


# --------------------------------------------------------------------------------------------
# a run of one property check

class Run:
    def __init__(self, prop: str, tier: str, *, level: str = 'model_checking') -> None:
        self.prop = prop
        self.tier = tier
        self.level = level
        self.seed = int(os.environ.get('VERIF_SEED', '0') or 0)
        self.t0 = time.time()
        self.total = Shard()
        self.rule = ''
        self.bounds: dict[str, Any] = {}
        self.assumptions: list[str] = []
        self.exhaustive = True
        self.caps_hit: list[str] = []
        self.extra: dict[str, Any] = {}
        self.replay_kind = 'case'

    def log(self, msg: str) -> None:
        print(f'[{self.prop} {time.time() - self.t0:7.1f}s] {msg}', flush=True)

    def run_cases(self, run_case: Callable[[Any], CaseResult], items: Iterable[Any], label: str = '',
                  **kw: Any) -> Shard:
        items = list(items)
        t = time.time()
        shard = pmap_cases(run_case, items, **kw)
        self.total.merge(shard)
        self.log(f'{label or "cases"}: {len(items)} cases, {shard.transitions} transitions, '
                 f'{len(shard.states)} states, {shard.violation_count} violating observations, '
                 f'{time.time() - t:.1f}s')
        return shard

    # -- finishing ------------------------------------------------------------------------
    def finish(self) -> int:
        total = self.total
        wall = time.time() - self.t0
        if total.errors:
            for e in total.errors[:3]:
                print('HARNESS ERROR:', e, file=sys.stderr)
            if not total.violations:
                print(f'{self.prop}: {len(total.errors)} harness error(s); no verdict', file=sys.stderr)
                self._write_evidence(wall, unlisted=0, known=[], harness_errors=len(total.errors))
                return 2
            print(f'{self.prop}: {len(total.errors)} harness error(s) besides the violations reported below', file=sys.stderr)
        kf = KnownFindings()
        unlisted = []
        known_hit = []
        rdir = os.path.join(OUT, 'replays', self.prop)
        for key in sorted(total.violations, key=lambda k: (total.violations[k][0], k)):
            size, case, text = total.violations[key]
            if (self.prop, key) in kf.known:
                known_hit.append((key, kf.known[(self.prop, key)] or text))
                continue
            os.makedirs(rdir, exist_ok=True)
            fname = os.path.join(rdir, hashlib.sha1(key.encode()).hexdigest()[:10] + '.json')
            with open(fname, 'w', encoding='utf-8') as f:
                json.dump({'property': self.prop, 'key': key, 'what': text, 'case': case}, f, indent=1,
                          default=str, ensure_ascii=True)
            unlisted.append((key, text, fname))
        for key, text in known_hit:
            print(f'KNOWN-FINDING: property={self.prop} {key}: {text}')
        for key, text, fname in unlisted:
            print(f'  finding {key}: {text[:300]}')
            print(f'VIOLATION property={self.prop} replay={fname}')
        self._write_evidence(wall, unlisted=len(unlisted), known=[k for k, _ in known_hit], harness_errors=len(total.errors))
        self.log(f'done: evaluations={total.evaluations} states={len(total.states)} '
                 f'transitions={total.transitions} distinct_nontrivial={len(total.nontrivial)} '
                 f'outcomes={len(total.outcomes)} violations={len(unlisted)} known={len(known_hit)}')
        return 1 if unlisted else 0

    def _write_evidence(self, wall: float, *, unlisted: int, known: list[str], harness_errors: int) -> None:
        total = self.total
        cov: dict[str, Any] = {
            'evaluations': total.evaluations,
            'distinct_nontrivial': len(total.nontrivial),
            'rule': self.rule,
            'samples': total.samples[:4] or ['(no sample recorded)'],
            'states': len(total.states),
            'transitions': total.transitions,
            'traces_validated_against_impl': total.evaluations,
            'exhaustive': self.exhaustive and not self.caps_hit,
            'bounds_completed': self.bounds,
            'caps_hit': self.caps_hit,
            'distinct_outcomes': len(total.outcomes),
            'outcome_histogram_top': dict(total.outcomes.most_common(12)),
            'counters': dict(total.counters),
            'known_findings_matched': known,
            'harness_errors': harness_errors,
            'explanation': ('every trace is executed on the real implementation (the model is the reference '
                            'oracle stepped beside it), so traces_validated_against_impl == evaluations'),
        }
        cov.update(self.extra)
        ev = {
            'property_id': self.prop,
            'tier': self.tier,
            'seed': self.seed,
            'level': self.level,
            'coverage': cov,
            'assumptions': self.assumptions,
            'wall_s': round(wall, 2),
            'violations': unlisted,
        }
        os.makedirs(os.path.join(OUT, 'evidence'), exist_ok=True)
        path = os.path.join(OUT, 'evidence', f'{self.prop}.json')
        tmp = path + '.tmp'
        with open(tmp, 'w', encoding='utf-8') as f:
            json.dump(ev, f, indent=1, default=str, ensure_ascii=True)
        os.replace(tmp, path)


def replay_file(path: str, run_case: Callable[[Any], CaseResult], prop: str) -> int:
    data = json.load(open(path, encoding='utf-8'))
    case = data['case']
    obs = []
    for _ in range(2):
        res = run_case(case)
        obs.append(sorted((k, t) for k, t, _ in res.violations))
    if obs[0] != obs[1]:
        print(f'HARNESS ERROR: replay of {path} is not deterministic: {obs}', file=sys.stderr)
        return 2
    keys = [k for k, _ in obs[0]]
    for k, t in obs[0]:
        print(f'  observed {k}: {t[:400]}')
    if data.get('key') in keys or (keys and data.get('key') is None):
        print(f'VIOLATION property={prop} replay={path}')
        return 1
    if keys:
        print(f'recorded finding {data.get("key")} not reproduced, but other findings were: {keys}')
        print(f'VIOLATION property={prop} replay={path}')
        return 1
    print(f'replay {path}: property holds on this trace (finding not reproduced on the current tree)')
    return 0
