"""E-STORE: fixpoint breadth-first exploration of the real TokenStore against a plain list.

State      = a live TokenStore (rebuilt by replaying its shortest history from an initial content)
Transition = one public API call (splice / insert_after / insert_before / remove / replace / update)
Canonical  = block layout + every cache the store keeps (see canon())
Oracles    = 'seq' (C07: list semantics)  and  'pos' (C08: positions == recomputed from the text)
"""
from __future__ import annotations

import ast
import inspect
import itertools
from typing import Any, Optional

from autobean_refactor import token_store as TS

from . import core

CLASSES = {'x': 'x', 'n': '\n', 'm': 'a\nbc', 'e': '', 'k': 'a\n\nb', 'j': 'ab\nc', 'f': 'a\x0cb\nc'}
_REV = {v: k for k, v in CLASSES.items()}


_LF_CODE: list = []
_LF_CUR: list = ['unset']


def _lf_code() -> list:
    if not _LF_CODE:
        tree = ast.parse(inspect.getsource(TS))
        for node in tree.body:
            if isinstance(node, ast.Assign) and len(node.targets) == 1 and isinstance(node.targets[0], ast.Name):
                name = node.targets[0].id
                if name.endswith('LOAD_FACTOR'):
                    _LF_CODE.append((name, compile(ast.Module([node], []), 'token_store.py', 'exec')))
        if not any(n == '_LOAD_FACTOR' for n, _ in _LF_CODE):
            raise RuntimeError('token_store.py no longer defines _LOAD_FACTOR; cannot control block size')
    return _LF_CODE


def set_load_factor(n: Optional[int]) -> dict[str, int]:
    """Set the load factor the way the tree itself derives its thresholds: re-execute the module-level
    assignments `_X_LOAD_FACTOR = f(_LOAD_FACTOR)` taken from the source of token_store.py
    (n=None restores the tree's default)."""
    if _LF_CUR[0] == n:
        return {name: TS.__dict__[name] for name, _ in _lf_code()}
    out = {}
    for name, code in _lf_code():
        if name == '_LOAD_FACTOR' and n is not None:
            TS._LOAD_FACTOR = n
        else:
            exec(code, TS.__dict__)
        out[name] = TS.__dict__[name]
    _LF_CUR[0] = n
    return out


class VTok(TS.Token):
    """Token with value equality, like the library's RawTokenModel (RULE + raw_text): the store must never
    confuse two distinct token objects that merely compare equal."""

    def __eq__(self, other: object) -> bool:
        return isinstance(other, VTok) and other.raw_text == self.raw_text

    def __hash__(self) -> int:
        return hash(self.raw_text)


def tok(cls: str) -> TS.Token:
    return VTok(CLASSES[cls])


def cls_of(t: TS.Token) -> str:
    return _REV.get(t.raw_text, '?')


def canon(store: TS.TokenStore) -> tuple:
    try:
        blocks = store._blocks
    except AttributeError:
        return ('flat', tuple(cls_of(t) for t in store))
    out = []
    for bi, b in enumerate(blocks):
        toks = []
        for ti, t in enumerate(b.tokens):
            h = t.store_handle
            toks.append((cls_of(t), t.size.line, t.size.column,
                         h is not None and h.block is b, h.index if h is not None else None))
        out.append((b.index, tuple(toks), b.size.line, b.size.column, b.last_newline_index))
    return (tuple(out), store._len)


def text_positions(tokens: list[TS.Token]) -> list[tuple[int, int]]:
    """(line, column) of the first character of every token, from the concatenated text only."""
    out = []
    line = col = 0
    for t in tokens:
        out.append((line, col))
        s = t.raw_text
        nl = s.count('\n')
        if nl:
            line += nl
            col = len(s) - (s.rfind('\n') + 1)
        else:
            col += len(s)
    return out


def check_seq(store: TS.TokenStore, exp: list[TS.Token], removed: list[TS.Token], res: core.CaseResult,
              where: str) -> None:
    got = list(store)
    if len(got) != len(exp) or any(a is not b for a, b in zip(got, exp)):
        res.fail('C07/iteration-differs-from-list', f'{where}: iteration {[cls_of(t) for t in got]} '
                 f'!= reference {[cls_of(t) for t in exp]} (identity compared)')
        return
    if len(store) != len(exp):
        res.fail('C07/len', f'{where}: len(store)={len(store)} reference {len(exp)}')
    first, last = store.get_first(), store.get_last()
    if (first is not (exp[0] if exp else None)) or (last is not (exp[-1] if exp else None)):
        if exp or first or last:
            res.fail('C07/first-last', f'{where}: get_first/get_last disagree with the reference')
    n = len(exp)
    for i, t in enumerate(exp):
        try:
            if store.get_index(t) != i:
                res.fail('C07/get_index', f'{where}: get_index(token {i}) = {store.get_index(t)}')
            p, nx = store.get_prev(t), store.get_next(t)
            if p is not (exp[i - 1] if i else None):
                res.fail('C07/get_prev', f'{where}: get_prev(token {i}) wrong')
            if nx is not (exp[i + 1] if i + 1 < n else None):
                res.fail('C07/get_next', f'{where}: get_next(token {i}) wrong')
        except Exception as e:  # noqa
            res.fail('C07/navigation-raises', f'{where}: navigation from token {i} raises {type(e).__name__}: {e}')
    for i in range(n):
        for j in range(i, n):
            try:
                sub = list(store.iter(exp[i], exp[j]))
            except Exception as e:  # noqa
                res.fail('C07/iter-range-raises', f'{where}: iter({i},{j}) raises {type(e).__name__}: {e}')
                continue
            if len(sub) != j - i + 1 or any(a is not b for a, b in zip(sub, exp[i:j + 1])):
                res.fail('C07/iter-range', f'{where}: iter({i},{j}) != reference slice')
    for t in removed:
        if t.store_handle is not None:
            res.fail('C07/removed-token-still-attached', f'{where}: removed token keeps a store handle')
        else:
            for f in (store.get_index, store.get_prev, store.get_next, store.get_position):
                try:
                    f(t)
                except ValueError:
                    continue
                except Exception as e:  # noqa
                    res.fail('C07/removed-token-api', f'{where}: {f.__name__}(removed) raises {type(e).__name__}')
                    continue
                res.fail('C07/removed-token-api', f'{where}: {f.__name__}(removed token) did not refuse')


def check_pos(store: TS.TokenStore, exp: list[TS.Token], res: core.CaseResult, where: str) -> None:
    ref = text_positions(exp)
    for i, t in enumerate(exp):
        try:
            p = store.get_position(t)
            idx = store.get_index(t)
        except Exception as e:  # noqa
            res.fail('C08/position-raises', f'{where}: get_position/get_index(token {i}) raises {type(e).__name__}: {e}')
            return
        if (p.line, p.column) != ref[i]:
            res.fail('C08/position', f'{where}: get_position(token {i}) = {(p.line, p.column)}, text says {ref[i]} '
                     f'(store text {"".join(x.raw_text for x in exp)!r})')
            return
        if idx != i:
            res.fail('C08/index', f'{where}: get_index(token {i}) = {idx}')
            return


def new_tokens(pattern: list[str]) -> list[TS.Token]:
    return [tok(c) for c in pattern]


def apply_op(store: TS.TokenStore, exp: list[TS.Token], op: list) -> tuple[list[TS.Token], list[TS.Token]]:
    """Apply op on the real store; returns (new reference list, removed tokens). The reference is a
    plain list operation."""
    kind = op[0]
    n = len(exp)
    if kind == 'splice':          # ['splice', i, j, pattern, route]
        _, i, j, pattern, route = op
        new = new_tokens(pattern)
        if j > i:
            if route == 'remove' and not new:
                if j == i + 1:
                    store.remove(exp[i])
                else:
                    store.remove(exp[i], exp[j - 1])
            elif route == 'replace' and len(new) == 1 and j == i + 1:
                store.replace(exp[i], new[0])
            else:
                store.splice(new, exp[i], exp[j - 1])
        else:
            if route == 'before' and i < n:
                store.insert_before(exp[i], new)
            elif route == 'after' and i > 0:
                store.insert_after(exp[i - 1], new)
            elif route == 'after-none' and i == 0:
                store.insert_after(None, new)
            elif route == 'splice' and i < n:
                store.splice(new, exp[i])
            elif route == 'splice-none' and i == 0:
                store.splice(new, None)
            else:
                raise AssertionError(f'bad route {op}')
        return exp[:i] + new + exp[j:], exp[i:j]
    if kind == 'perm':            # ['perm', i, j, how] re-insert the same tokens in another order
        _, i, j, how = op
        cur = exp[i:j]
        if how == 'rev':
            new = cur[::-1]
        elif how == 'rot':
            new = cur[1:] + cur[:1]
        elif how == 'same':
            new = list(cur)
        elif how == 'drop-first':
            new = cur[1:]
        elif how == 'plus-x':
            new = cur[:1] + [tok('x')] + cur[1:]
        else:
            raise AssertionError(how)
        store.splice(new, exp[i], exp[j - 1])
        removed = [t for t in cur if not any(t is u for u in new)]
        return exp[:i] + new + exp[j:], removed
    if kind == 'update':          # ['update', idx, cls]
        _, idx, c = op
        exp[idx].raw_text = CLASSES[c]
        return exp, []
    raise AssertionError(op)


def build(init: list[str], route: str = 'from_tokens') -> tuple[TS.TokenStore, list[TS.Token]]:
    toks = [tok(c) for c in init]
    if route == 'from_tokens':
        given = list(toks)
        store = TS.TokenStore.from_tokens(given)
        given.clear()           # the caller's list is the caller's: the store must not depend on it afterwards
    else:
        store = TS.TokenStore()
        if toks:
            store.insert_after(None, toks)
    return store, toks


def enum_ops(exp: list[TS.Token], cfg: dict) -> list[list]:
    n = len(exp)
    cap = cfg['cap']
    K = cfg['maxins']
    nl_classes = cfg['nl_classes']          # e.g. ['n'] or ['n', 'm']
    maxnl = cfg['maxnl']
    have_nl = sum(1 for t in exp if '\n' in t.raw_text)
    ops: list[list] = []
    patterns_by_k: dict[int, list[list[str]]] = {}
    for k in range(0, K + 1):
        pats = [['x'] * k]
        if k >= 1:
            for c in nl_classes:
                pats.append([c] + ['x'] * (k - 1))
                if k >= 2:
                    pats.append(['x'] * (k - 1) + [c])
            if cfg.get('empty'):
                pats.append(['e'] + ['x'] * (k - 1))
        patterns_by_k[k] = pats
    for i in range(n + 1):
        for j in range(i, n + 1):
            removed_nl = sum(1 for t in exp[i:j] if '\n' in t.raw_text)
            for k in range(0, K + 1):
                if n - (j - i) + k > cap:
                    continue
                if i == j and k == 0:
                    continue
                for pat in patterns_by_k[k]:
                    add_nl = sum(1 for c in pat if c in ('n', 'm', 'k', 'j', 'f'))
                    if have_nl - removed_nl + add_nl > maxnl:
                        continue
                    if j > i:
                        routes = ['splice']
                        if k == 0:
                            routes.append('remove')
                        if k == 1 and j == i + 1:
                            routes.append('replace')
                    else:
                        routes = []
                        if i < n:
                            routes += ['before', 'splice']
                        if i > 0:
                            routes.append('after')
                        if i == 0:
                            routes += ['after-none', 'splice-none']
                    for r in routes:
                        ops.append(['splice', i, j, pat, r])
            if j - i >= 2:
                for how in ('rev', 'rot', 'same', 'drop-first', 'plus-x'):
                    if how == 'plus-x' and n + 1 > cap:
                        continue
                    ops.append(['perm', i, j, how])
    if cfg.get('update'):
        for idx, t in enumerate(exp):
            cur = cls_of(t)
            for c in cfg['update_classes']:
                if c == cur:
                    continue
                delta = (c in ('n', 'm', 'k', 'j', 'f')) - ('\n' in t.raw_text)
                if have_nl + delta > maxnl:
                    continue
                ops.append(['update', idx, c])
    return ops


def run_case(case: dict) -> core.CaseResult:
    """case = {lf, init, init_route, ops, oracles, check_from}: replay ops on a fresh store with the
    oracles applied after every step from check_from on."""
    res = core.CaseResult()
    set_load_factor(case['lf'])
    try:
        store, exp = build(case['init'], case.get('init_route', 'from_tokens'))
        oracles = case.get('oracles', ['seq', 'pos'])
        check_from = case.get('check_from', 0)
        for t in exp:               # reads on the initial state (also when it is a replayed prefix)
            try:
                store.get_position(t)
            except Exception:  # noqa: judged by the oracles below, not here
                break
        if check_from == 0:
            if 'seq' in oracles:
                check_seq(store, exp, [], res, 'initial state')
            if 'pos' in oracles:
                check_pos(store, exp, res, 'initial state')
        for step, op in enumerate(case['ops']):
            try:
                exp, removed = apply_op(store, exp, op)
            except AssertionError:
                raise
            except Exception as e:  # noqa
                if step >= check_from:
                    res.fail(f'{"C07" if "seq" in oracles else "C08"}/operation-raises',
                             f'step {step} {op}: {type(e).__name__}: {e}')
                return res
            if step < check_from:
                # replayed prefix: already judged when it was the last step, but the reads happen again - a store that
                # caches what it was asked (positions, block starts) must see the same sequence of calls as in a real history
                for t in exp:
                    try:
                        store.get_position(t)
                        store.get_index(t)
                    except Exception:  # noqa
                        break
            if step >= check_from:
                res.transitions += 1
                where = f'after step {step} {op}'
                if 'seq' in oracles:
                    check_seq(store, exp, removed, res, where)
                if 'pos' in oracles:
                    check_pos(store, exp, res, where)
                if res.violations:
                    return res
        if case['ops']:
            res.sample = {'lf': case['lf'], 'init': ''.join(case['init']), 'ops': case['ops'],
                          'final': ''.join(cls_of(t) for t in exp)}
        res._final = (canon(store), exp, store)  # type: ignore[attr-defined]
    finally:
        set_load_factor(None)
    return res


# ---- refusal probes in a state (C07 clause: foreign / duplicated tokens are refused, nothing changes)
def probe_refusals(store: TS.TokenStore, exp: list[TS.Token], res: core.CaseResult, where: str) -> None:
    if len(exp) < 2:
        return
    before = canon(store)
    n = len(exp)
    # offer a token that already lives elsewhere in this store (coordinates clearly outside the
    # insertion point, so that the tree's own range test cannot accept it as a re-insertion)
    for how in ('last-before-first', 'first-after-last'):
        try:
            if how == 'last-before-first':
                store.insert_before(exp[0], [exp[n - 1]])
            else:
                store.insert_after(exp[n - 1], [exp[0]])
        except ValueError:
            pass
        except Exception as e:  # noqa
            res.fail('C07/duplicate-token-refusal', f'{where}: offering an attached token raises {type(e).__name__}')
        else:
            res.fail('C07/duplicate-token-accepted', f'{where}: a token already in the store was accepted a second time')
        res.transitions += 1
    if canon(store) != before and not res.violations:
        res.fail('C07/refused-call-changed-store', f'{where}: a refused call changed the store')


_EXP: dict[str, Any] = {}


def _expand(args: tuple) -> tuple:
    """Worker: expand one state (given by its history) -> list of (hash, op) successors + shard."""
    cfg, init, init_route, hist = args
    shard = core.Shard()
    base = {'lf': cfg['lf'], 'init': init, 'init_route': init_route, 'oracles': cfg['oracles']}
    r0 = run_case(dict(base, ops=hist, check_from=len(hist)))
    if r0.violations:   # cannot happen: the state was verified when first reached
        shard.errors.append(f'replay of verified history diverged: {hist} {r0.violations}')
        return [], shard
    set_load_factor(cfg['lf'])
    try:
        c0, exp0, store0 = r0._final  # type: ignore[attr-defined]
        h0 = core.h64(c0)
        if 'seq' in cfg['oracles']:
            pr = core.CaseResult()
            probe_refusals(store0, exp0, pr, f'state after {hist}')
            shard.add(dict(base, ops=hist, probe='refusals'), pr)
        ops = enum_ops(exp0, cfg)
    finally:
        set_load_factor(None)
    succ = []
    for op in ops:
        case = dict(base, ops=hist + [op], check_from=len(hist))
        r = run_case(case)
        if r.violations:
            shard.add(case, r)
            continue
        c1 = r._final[0]  # type: ignore[attr-defined]
        h1 = core.h64(c1)
        r.states = {h1}
        if h1 != h0:
            r.nontrivial = {h1}
        r.outcomes[''.join(cls_of(t) for t in r._final[1])] += 1  # type: ignore[attr-defined]
        shard.add(case, r)
        succ.append((h1, op))
    return succ, shard


def explore(run: core.Run, cfg: dict) -> None:
    """Level-synchronous BFS to a fixpoint under cfg['cap'] tokens; initial states are from_tokens
    stores of every length 0..cap over the class patterns, and the empty constructor."""
    import multiprocessing
    lf = cfg['lf']
    seen: dict[int, tuple] = {}
    frontier: list[tuple] = []
    inits: list[tuple[list[str], str]] = [([], 'empty')]
    for n in range(0, cfg['cap'] + 1):
        inits.append((['x'] * n, 'from_tokens'))
        for c in cfg['nl_classes']:
            if n >= 1 and cfg['maxnl'] >= 1:
                for p in sorted({0, n // 2, n - 1}):
                    pat = ['x'] * n
                    pat[p] = c
                    inits.append((pat, 'from_tokens'))
    for init, route in inits:
        r = run_case({'lf': lf, 'init': init, 'init_route': route, 'ops': [], 'oracles': cfg['oracles']})
        case = {'lf': lf, 'init': init, 'init_route': route, 'ops': [], 'oracles': cfg['oracles']}
        if r.violations:
            run.total.add(case, r)
            continue
        h = core.h64(r._final[0])  # type: ignore[attr-defined]
        r.states = {h}
        run.total.add(case, r)
        if h not in seen:
            seen[h] = (init, route, [])
            frontier.append((init, route, []))
    depth = 0
    ctx = multiprocessing.get_context('fork')
    max_states = cfg.get('max_states', 10 ** 9)
    with ctx.Pool(core.NPROC) as pool:
        while frontier:
            depth += 1
            work = [(cfg, init, route, hist) for init, route, hist in frontier]
            nxt = []
            for (succ, shard), w in zip(pool.imap(_expand, work, chunksize=max(1, len(work) // (core.NPROC * 8))), work):
                run.total.merge(shard)
                for h1, op in succ:
                    if h1 not in seen:
                        seen[h1] = True
                        nxt.append((w[1], w[2], w[3] + [op]))
            run.log(f'LF={lf} depth {depth}: frontier {len(frontier)} -> {len(nxt)} new, states {len(seen)}, '
                    f'transitions {run.total.transitions}')
            frontier = nxt
            if len(seen) > max_states:
                run.caps_hit.append(f'LF={lf}: state cap {max_states} hit at depth {depth}; fully covered to depth {depth}')
                break
            if run.total.violations and cfg.get('stop_on_violation', True):
                break
    run.bounds.setdefault('store_fixpoints', []).append(
        {'lf': lf, 'cap_tokens': cfg['cap'], 'max_inserted': cfg['maxins'], 'max_newline_tokens': cfg['maxnl'],
         'classes': ['x'] + cfg['nl_classes'] + (['e'] if cfg.get('empty') else []),
         'depth_to_fixpoint': depth, 'states': len(seen), 'fixpoint': not frontier})
    if run.total.samples == [] and seen:
        pass
