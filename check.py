#!/venv/bin/python
"""Front end: check.py <Cnn> [--tier quick|thorough] [--replay <file>] | --selftest"""
import argparse
import importlib
import os
import sys

os.environ.setdefault('PYTHONHASHSEED', '0')
sys.dont_write_bytecode = True
sys.path.insert(0, os.path.dirname(os.path.abspath(__file__)))
sys.setrecursionlimit(10000)


def main() -> int:
    ap = argparse.ArgumentParser()
    ap.add_argument('prop', nargs='?')
    ap.add_argument('--tier', default=os.environ.get('VERIF_TIER') or 'quick', choices=['quick', 'thorough'])
    ap.add_argument('--replay')
    ap.add_argument('--selftest', action='store_true')
    a = ap.parse_args()
    from mc import core
    if a.selftest:
        from mc import selftest
        return selftest.main()
    if not a.prop:
        ap.error('property id required')
    mod = importlib.import_module(f'mc.props.{a.prop.lower()}')
    if a.replay:
        return core.replay_file(a.replay, mod.run_case, a.prop)
    run = core.Run(a.prop, a.tier)
    try:
        mod.main(run)
    except Exception:
        import traceback
        traceback.print_exc()
        print(f'{a.prop}: harness error; no verdict', file=sys.stderr)
        return 2
    return run.finish()


if __name__ == '__main__':
    sys.exit(main())
