#!/bin/bash
# usage: tools/try_patch.sh <patch.diff> <tier> <Cnn> [<Cnn> ...]
# applies the patch to a scratch worktree of /repo HEAD, runs the given checks against it (evidence/replays go to a scratch dir)
patch=$(readlink -f "$1"); tier=$2; shift 2
tag=$(basename $(dirname "$patch"))_$$
wt=/tmp/mut/$tag
mkdir -p /tmp/mut
git -C /repo worktree add -q --detach $wt HEAD || exit 3
if ! git -C $wt apply "$patch"; then echo "PATCH DOES NOT APPLY"; git -C /repo worktree remove --force $wt; exit 3; fi
for id in "$@"; do
  out=$(cd /verif && VERIF_OUT=/tmp/mut/out_$tag PYTHONPATH=$wt timeout 3000 /venv/bin/python -B check.py $id --tier $tier 2>&1)
  rc=$?
  echo "== $id rc=$rc: $(echo "$out" | grep -c '^VIOLATION') violation lines; $(echo "$out" | grep 'finding' | head -2 | cut -c1-260)"
done
git -C /repo worktree remove --force $wt
rm -rf /tmp/mut/out_$tag
