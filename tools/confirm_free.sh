#!/bin/bash
# usage: tools/confirm_free.sh <X-id> <k>      (round 4: free-choice seeds in /tmp/seed/<X-id>/out/<k>/)
# like confirm_seed.sh, but the property is read from notes.md ("breaks: Cnn"); runs that property's quick check first and,
# if it is silent, the checks named in FIRST (optional) and then every other quick check
x=$1; k=$2; src=/tmp/seed/$x/out/$k
[ -f $src/patch.diff ] || { echo "no patch in $src"; exit 2; }
prop=$(grep -o -i -m1 'breaks: *C[0-9][0-9]' $src/notes.md | grep -o 'C[0-9][0-9]')
[ -n "$prop" ] || prop=C00
name=${ROUND:-r4}-$x-$k
dst=/verif/seeded/$prop-$name
wt=/tmp/mut/confirm_$name
mkdir -p /tmp/mut; git -C /repo worktree add -q --detach $wt HEAD || exit 3
cd $wt
PYTHONPATH=$wt /venv/bin/python $src/demo.py > /tmp/mut/demo_$name.base 2>&1; rc_base=$?
if ! git apply $src/patch.diff; then echo "$name PATCH DOES NOT APPLY"; cd /; git -C /repo worktree remove --force $wt; exit 3; fi
PYTHONPATH=$wt /venv/bin/python $src/demo.py > /tmp/mut/demo_$name.mut 2>&1; rc_mut=$?
suite=$(PYTHONPATH=$wt /venv/bin/python -m pytest -q -p no:cacheprovider --timeout=900 autobean_refactor 2>&1 | tail -1)
cd /verif
caught=""; detail=""
all="C01 C02 C03 C04 C05 C06 C07 C08 C09 C10 C11 C12 C13 C14 C15 C16 C17 C18 C19 C20"
for id in $prop ${FIRST:-} $(echo $all | tr ' ' '\n' | grep -v "^$prop$"); do
  [ "$id" = "C00" ] && continue
  out=$(VERIF_OUT=/tmp/mut/out_$name PYTHONPATH=$wt timeout 3000 /venv/bin/python -B check.py $id --tier quick 2>&1); rc=$?
  nviol=$(echo "$out" | grep -c '^VIOLATION')
  if [ $rc -eq 1 ] && [ $nviol -gt 0 ]; then
    caught="$caught $id:quick"; detail="$detail | $id quick: $(echo "$out" | grep 'finding' | head -1 | cut -c1-300)"
    [ "${ALL_CHECKS:-0}" = "1" ] || break
  else
    detail="$detail | $id quick: rc=$rc silent"
  fi
done
git -C /repo worktree remove --force $wt; rm -rf /tmp/mut/out_$name
mkdir -p $dst; cp $src/patch.diff $src/demo.py $dst/; [ -f $src/notes.md ] && cp $src/notes.md $dst/
/venv/bin/python - "$prop" "$name" "$rc_base" "$rc_mut" "$suite" "$caught" "$detail" <<'PY'
import json, os, sys
prop, name, rb, rm, suite, caught, detail = sys.argv[1:8]
d = f'/verif/seeded/{prop}-{name}'
meta = {
  'breaks_property': prop,
  'needs_to_manifest': open(f'{d}/notes.md').read()[:1800] if os.path.exists(f'{d}/notes.md') else '',
  'confirmed': {
    'demo_exit_on_unmodified_tree': int(rb), 'demo_exit_with_patch': int(rm), 'repo_suite_with_patch': suite,
    'how': 'tools/confirm_free.sh: scratch worktree of /repo HEAD, PYTHONPATH=<worktree>; demo before/after git apply; full pytest run with the patch; then the quick tier of the named property first and of all other checks until one reports',
  },
  'checks_run': detail.strip(' |'),
  'caught_by': caught.split(),
}
json.dump(meta, open(f'{d}/meta.json', 'w'), indent=1)
print(prop, name, 'demo', rb, '->', rm, '| suite:', suite, '| caught by:', caught or 'NOTHING', '|', detail[-600:] if not caught else '')
PY
