#!/venv/bin/python
"""Writes /verif/seeded/SUMMARY.md from the meta.json files of the confirmed seeded changes."""
import glob
import json
import os

rows = []
for f in sorted(glob.glob('/verif/seeded/*/meta.json')):
    m = json.load(open(f))
    name = os.path.basename(os.path.dirname(f))
    notes = m.get('needs_to_manifest', '').strip().split('\n')
    first = next((ln.strip('# *`').strip() for ln in notes if ln.strip() and not ln.strip('# *`').lower().startswith('breaks')), '')
    c = m['confirmed']
    ok = c['demo_exit_on_unmodified_tree'] == 0 and c['demo_exit_with_patch'] == 1 and 'passed' in c['repo_suite_with_patch'] \
        and 'failed' not in c['repo_suite_with_patch']
    rows.append((name, m['breaks_property'], first[:110], 'yes' if ok else 'NO', ', '.join(m['caught_by']) or '**missed**',
                 c['repo_suite_with_patch'].split(' in ')[0]))
with open('/verif/seeded/SUMMARY.md', 'w') as out:
    out.write('# Seeded property-breaking changes\n\n'
              'Each change keeps the repository suite green, has a demo that exits 0 on HEAD and 1 with the patch, and was run against\n'
              'the checks named in its meta.json (`tools/confirm_seed.sh`). "caught by" lists check:tier pairs that printed a VIOLATION.\n\n'
              '| seed | property | change (first line of notes) | confirmed | suite with patch | caught by |\n|---|---|---|---|---|---|\n')
    for name, prop, first, ok, caught, suite in rows:
        out.write(f'| {name} | {prop} | {first} | {ok} | {suite} | {caught} |\n')
    missed = [r[0] for r in rows if r[4] == '**missed**']
    out.write(f'\n{len(rows)} changes, {len(rows) - len(missed)} reported by at least one check'
              + (f'; not reported: {", ".join(missed)}' if missed else '') + '.\n')
print(open('/verif/seeded/SUMMARY.md').read())
