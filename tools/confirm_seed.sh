#!/bin/bash
# usage: tools/confirm_seed.sh <prop> <k> "<extra checks>"      (reads /tmp/seed/<prop>/out/<k>/)
# Confirms a seeded change independently: demo passes on HEAD, fails with the patch, the repo suite passes with the patch;
# then runs the quick tier of the property's check and of the extra checks against it (thorough tier of all of them only if
# every quick run is silent; NO_THOROUGH=1 skips that) and stores everything in /verif/seeded/<prop>-<k>/
prop=$1; k=$2; src=/tmp/seed/$prop/${SEED_OUT:-out}/$k
dst=/verif/seeded/$prop-${SEED_TAG:-}$k
[ -f $src/patch.diff ] || { echo "no patch in $src"; exit 2; }
wt=/tmp/mut/confirm_${SEED_TAG:-}${prop}_$k
mkdir -p /tmp/mut; git -C /repo worktree add -q --detach $wt HEAD || exit 3
cd $wt
PYTHONPATH=$wt /venv/bin/python $src/demo.py > /tmp/mut/demo_${prop}_$k.base 2>&1; rc_base=$?
if ! git apply $src/patch.diff; then echo "$prop-$k PATCH DOES NOT APPLY"; cd /; git -C /repo worktree remove --force $wt; exit 3; fi
PYTHONPATH=$wt /venv/bin/python $src/demo.py > /tmp/mut/demo_${prop}_$k.mut 2>&1; rc_mut=$?
if [ "${SKIP_SUITE:-0}" = "1" ] && [ -f $dst/meta.json ]; then
  suite=$(/venv/bin/python -c "import json;print(json.load(open('$dst/meta.json'))['confirmed']['repo_suite_with_patch'])")
else
  suite=$(PYTHONPATH=$wt /venv/bin/python -m pytest -q -p no:cacheprovider --timeout=900 autobean_refactor 2>&1 | tail -1)
fi
cd /verif
checks="$prop ${3:-}"
caught=""; detail=""
for tier in quick thorough; do
  for id in $checks; do
    out=$(VERIF_OUT=/tmp/mut/out_${prop}_$k PYTHONPATH=$wt timeout 5000 /venv/bin/python -B check.py $id --tier $tier 2>&1); rc=$?
    nviol=$(echo "$out" | grep -c '^VIOLATION')
    if [ $rc -eq 1 ] && [ $nviol -gt 0 ]; then
      caught="$caught $id:$tier"; detail="$detail | $id $tier: $(echo "$out" | grep 'finding' | head -1 | cut -c1-300)"
    else
      detail="$detail | $id $tier: rc=$rc silent"
    fi
  done
  [ -n "$caught" ] && break
  [ "${NO_THOROUGH:-0}" = "1" ] && break
done
git -C /repo worktree remove --force $wt; rm -rf /tmp/mut/out_${prop}_$k
mkdir -p $dst; cp $src/patch.diff $src/demo.py $dst/; [ -f $src/notes.md ] && cp $src/notes.md $dst/
/venv/bin/python - "$prop" "$k" "$rc_base" "$rc_mut" "$suite" "$caught" "$detail" <<'PY'
import json, os, sys
prop, k, rb, rm, suite, caught, detail = sys.argv[1:8]
d = f'/verif/seeded/{prop}-{os.environ.get("SEED_TAG", "")}{k}'
meta = {
  'breaks_property': prop,
  'needs_to_manifest': open(f'{d}/notes.md').read()[:1800] if os.path.exists(f'{d}/notes.md') else '',
  'confirmed': {
    'demo_exit_on_unmodified_tree': int(rb), 'demo_exit_with_patch': int(rm),
    'repo_suite_with_patch': suite,
    'how': 'tools/confirm_seed.sh: scratch worktree of /repo HEAD, PYTHONPATH=<worktree>; demo run before/after git apply; full pytest run with the patch; then /verif checks against the patched worktree',
  },
  'checks_run': detail.strip(' |'),
  'caught_by': caught.split(),
}
json.dump(meta, open(f'{d}/meta.json', 'w'), indent=1)
print(prop, k, 'demo', rb, '->', rm, '| suite:', suite, '| caught by:', caught or 'NOTHING', '|', detail[:400] if not caught else '')
PY
