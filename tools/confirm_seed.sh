#!/bin/bash
# usage: tools/confirm_seed.sh <prop> <k>   (reads /tmp/seed/<prop>/out/<k>/)
# Confirms a seeded change independently: demo passes on HEAD, fails with the patch, repo suite passes with the patch;
# then runs the property's quick check (and thorough if quick is silent) against it and stores everything in /verif/seeded/<prop>-<k>/
prop=$1; k=$2; src=/tmp/seed/$prop/out/$k
dst=/verif/seeded/$prop-$k
[ -f $src/patch.diff ] || { echo "no patch in $src"; exit 2; }
wt=/tmp/mut/confirm_${prop}_$k
mkdir -p /tmp/mut; git -C /repo worktree add -q --detach $wt HEAD || exit 3
cd $wt
PYTHONPATH=$wt /venv/bin/python $src/demo.py > /tmp/mut/demo_${prop}_$k.base 2>&1; rc_base=$?
if ! git apply $src/patch.diff; then echo "$prop-$k PATCH DOES NOT APPLY"; cd /; git -C /repo worktree remove --force $wt; exit 3; fi
PYTHONPATH=$wt /venv/bin/python $src/demo.py > /tmp/mut/demo_${prop}_$k.mut 2>&1; rc_mut=$?
suite=$(PYTHONPATH=$wt /venv/bin/python -m pytest -q -p no:cacheprovider --timeout=900 autobean_refactor 2>&1 | tail -1)
cd /verif
checks="$prop ${3:-}"
caught=""; detail=""
for id in $checks; do
  for tier in quick thorough; do
    out=$(VERIF_OUT=/tmp/mut/out_${prop}_$k PYTHONPATH=$wt timeout 3000 /venv/bin/python -B check.py $id --tier $tier 2>&1); rc=$?
    nviol=$(echo "$out" | grep -c '^VIOLATION')
    if [ $rc -eq 1 ] && [ $nviol -gt 0 ]; then
      caught="$caught $id:$tier"; detail="$detail | $id $tier: $(echo "$out" | grep 'finding' | head -1 | cut -c1-300)"; break
    fi
    detail="$detail | $id $tier: rc=$rc silent"
  done
done
git -C /repo worktree remove --force $wt; rm -rf /tmp/mut/out_${prop}_$k
mkdir -p $dst; cp $src/patch.diff $src/demo.py $dst/; [ -f $src/notes.md ] && cp $src/notes.md $dst/
/venv/bin/python - "$prop" "$k" "$rc_base" "$rc_mut" "$suite" "$caught" "$detail" <<'PY'
import json, sys
prop, k, rb, rm, suite, caught, detail = sys.argv[1:8]
meta = {
  'breaks_property': prop,
  'needs_to_manifest': open(f'/verif/seeded/{prop}-{k}/notes.md').read()[:1500] if __import__('os').path.exists(f'/verif/seeded/{prop}-{k}/notes.md') else '',
  'confirmed': {
    'demo_exit_on_unmodified_tree': int(rb), 'demo_exit_with_patch': int(rm),
    'repo_suite_with_patch': suite,
    'how': 'tools/confirm_seed.sh: scratch worktree of /repo HEAD, PYTHONPATH=<worktree>; demo run before/after git apply; full pytest run with the patch',
  },
  'checks_run': detail.strip(' |'),
  'caught_by': caught.split(),
}
json.dump(meta, open(f'/verif/seeded/{prop}-{k}/meta.json', 'w'), indent=1)
print(prop, k, 'demo', rb, '->', rm, '| suite:', suite, '| caught by:', caught or 'NOTHING')
PY
