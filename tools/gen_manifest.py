#!/venv/bin/python
"""Regenerates /verif/MANIFEST.json from the table below (one entry per claimed property)."""
import json
import os

VERIF = os.path.dirname(os.path.dirname(os.path.abspath(__file__)))
PY = '/venv/bin/python -B /verif/check.py'
BASELINE = ("cd /repo && /venv/bin/python -m pytest -ra -q -p no:cacheprovider --timeout=900 "
            "--continue-on-collection-errors")

# id -> (technique, level text, level note, design ref)
CLAIMED = {
    'C01': (
        'bounded exhaustive enumeration of documents (all line sequences <= n over a 21-kind line alphabet x EOL/final-newline '
        'variants x attribution mode x every parse target on harvested fragments) executed on the real parser/printer',
        'Every accepted text in the closed small world is parsed and printed; store concatenation, every sub-model slice and the '
        'whole-file print are compared with the input.',
        'Line alphabet with one representative per lexer character class; fragments may leave trivia outside the returned model.',
        '§4 C01'),
    'C02': (
        'exhaustive enumeration of (document, token, replacement) and all ordered pairs of assignments, span-replacement oracle, at '
        'load factors default/3/2',
        'Every token of every corpus document (zero-width and trivia included) gets every replacement raw text / value from its '
        'class domain; the printed text must be the input with exactly that span replaced.',
        'Documents <= 2-3 lines; assignments that raise are judged by C19, not here.',
        '§4 C02'),
    'C03': (
        'breadth-first exploration of edit histories (depth 1 whole corpus, depth 2 small corpus) over the descriptor-derived '
        'structural alphabet with a window/sibling/gap oracle',
        'Every setter and every MutableSequence/Mapping call with every index/slice/arity combination is executed on every model '
        'of every corpus document; everything outside the parent, every sibling and every gap is compared token by token.',
        'Default-parsed documents; donors from a fixed table; gap clause = old gap or declared separators.',
        '§4 C03'),
    'C04': (
        'exhaustive read sweep over every reachable model/view of every corpus document + per-document fixpoint BFS over all '
        'claim/unclaim/auto-claim calls, text and visible-token identity compared in every state',
        'Every non-editing call the API offers is made on every model of every small document, and every sequence of attribution '
        'calls is explored to a fixpoint; after each the document must print identically with the same visible tokens.',
        'Mutating/ownership-transferring helpers (detach, reattach, clone, wrap_with_parenthesis, into_*_cost) are not reads.',
        '§4 C04'),
    'C05': (
        'breadth-first exploration of edit histories over the whole edit alphabet, structural invariant check_tree in every state',
        'All histories up to depth 1 (whole corpus) / 2 (small corpus), deduplicated by canonical state, with the tree invariant '
        'evaluated after every step and on every popped node.',
        'Documents <= 3 lines over the edit alphabet; histories are not extended after a refusal.',
        '§4 C05'),
    'C06': (
        'breadth-first exploration of syntax-preserving edit histories; oracle = print -> parse -> structural comparison',
        'All histories up to depth 1/2 over the syntax-preserving alphabet; the printed document must re-parse to the same '
        'comparison signature and comment lines.',
        'string0 (grammar-dead) and the documented custom-number ambiguity are out of contract; attribution, zero-width marks, '
        'trailing blanks of inline comments are not compared.',
        '§4 C06'),
    'C07': (
        'explicit-state fixpoint BFS over the real TokenStore at load factors 2..7 (state = block layout + caches), '
        'lock-step plain-list reference; band of splices at the default thresholds; load-factor differential of every depth-1 document edit',
        'All reachable block layouts under a token cap are enumerated for each small load factor and every API call is '
        'executed from every one of them against a plain list; this is the level at which split/merge/renumber bugs live.',
        'Token texts abstracted to classes {x, newline} with value equality; stores up to cap tokens; thresholds re-derived from the tree\'s own formulas.',
        '§4 C07'),
    'C08': (
        'explicit-state fixpoint BFS over the real TokenStore with newline-bearing/empty token classes and update transitions; '
        'document-level exhaustive token assignments and structural edits; oracle = positions recomputed from the text',
        'Every reachable (layout, cache) state under the cap x every splice/update; plus every token assignment and structural '
        'edit on every corpus document, with every token\'s (line, column, ordinal) compared against the printed text.',
        'Token texts abstracted to 8 classes (plain, newline, newline+text, empty, two newlines, same-length variant, form feed); <= 2 newline-bearing tokens per store in the store-level space.',
        '§4 C08'),
    'C09': (
        'exhaustive enumeration of (model, value property, value) with get-after-set / sibling-frame / re-parse oracles; explicit-state '
        'fixpoint BFS of the cost group and of payee/narration against a record-of-optionals reference model',
        'The two dependent groups are finite state machines once values are drawn from 3-element domains: every transition from '
        'every reachable state (from every initial concrete form) is executed against the record model. Thorough: every history of two '
        'assignments on every class document, deduplicated by canonical state.',
        'Documented dependencies exempt from the sibling clause; comment properties re-read attribution aside.',
        '§4 C09'),
    'C10': (
        'explicit-state BFS per repeated field over (element kinds, views read, index tables); every mutating call through every '
        'view with every index/slice/step/key argument; lock-step Python list / first-match association list reference',
        'All interleavings of mutations through aliasing views are reachable as paths of the state graph; each transition is '
        'compared with list semantics on the projection, the complement order, and every view re-derived from the raw list.',
        'List length capped at 3 (quick: every mutation once from every initial list; thorough: BFS to depth 3); reverse() on node views is refused by design (a node cannot be in two places).',
        '§4 C10'),
    'C11': (
        'exhaustive enumeration: deepcopy of every model and token at every depth of every corpus document (both attribution modes, '
        'and after each single claim/unclaim call), then every edit op on the copy and on the original with full snapshots compared',
        'Every model of the closed small world is copied; equality, exact text, token disjointness, own store, tree invariant and '
        'independence in both directions are checked for each.',
        'Independence is judged on snapshots (text, token identities, tree signature, view tables).',
        '§4 C11'),
    'C12': (
        'exhaustive enumeration of values/lexemes up to a length bound over adversarial alphabets (all calendar dates in thorough), '
        'terminal regexps taken from the live grammar; BFS over value/raw_text/indent assignment sequences',
        'Every in-domain value and every lexeme of every terminal within the bound is pushed through from_value / from_raw_text / the '
        'real lexer / a one-directive file parse.',
        'Value domain = image of the parse function (DESIGN §4 C12); alphabets are representatives of lexer character classes.',
        '§4 C12'),
    'C13': (
        'exhaustive enumeration of expression texts up to 3/4 nodes and of all operator applications over the <=1/2-node sets '
        '(plain, reflected, in-place; int/Decimal/expression; free and attached operands; chains), independent recursive-descent evaluator',
        'Every expression tree within the bound is evaluated by the implementation and by an independent evaluator over the text; '
        'every operator application is compared with Decimal arithmetic, re-parsed, and its operands/documents snapshotted.',
        'Literals {1, 2.5, 0, 1,000}; the (2,2)-node pair product is restricted as reported in caps_hit.',
        '§4 C13'),
    'C14': (
        'exhaustive enumeration of comment layouts <= n lines with an independent token-level attribution reference; per-document '
        'fixpoint BFS over all claim/unclaim/auto-claim calls with the ownership invariant in every state',
        'Every layout of comments relative to directives/postings/meta within the bound is attributed by the implementation and by '
        'the reference rules R1-R3; every reachable attribution state keeps "at most one owner, flag agrees".',
        'Same indentation is read as same indentation class; the hosting field of a standalone comment is not compared.',
        '§4 C14'),
    'C15': (
        'signature-driven exhaustive enumeration of from_value/from_children argument combinations for all tree classes (full product '
        'below a size bound, t-wise above), print -> parse -> structural comparison, tree invariant, also inside a File',
        'Every constructor is driven over every subset of optional arguments, list sizes 0..2, escape-needing strings, negative '
        'numbers and the custom-value disambiguation cases.',
        'Large constructors are covered pairwise / 3-wise / 4-wise (reported per constructor, exhaustive=false).',
        '§4 C15'),
    'C16': (
        'exhaustive enumeration of small directory worlds (include graphs <= 3-4 files incl. cycles/globs/two spellings x LF/CRLF x path '
        'spellings x edited/removed/added subsets x raising bodies) executed on the real Editor and file system against a byte/mtime-exact '
        'dictionary model',
        'Every world of the bounded product is built on a tmpfs directory, edited through the real context managers and compared '
        'byte for byte (and mtime/inode for untouched files).',
        'Faults other than "body raises" and "include matches nothing" are not injected; k=3/4 products are pruned as listed in bounds.',
        '§4 C16'),
    'C17': (
        'exhaustive enumeration of (document, model/token, side, spacing string) with an independent token-level reference for the run',
        'Every spacing getter and every setter with all 21 strings of <= 2 atoms is executed on every model and token of every '
        'layout-corpus document.',
        'Runs are delimited by zero-width end-of-line marks (documented, counted in the evidence).',
        '§4 C17'),
    'C18': (
        'full product enumeration parent kind x existing meta layout x indent_by x insertion route (x second insertion), '
        'documented indent rule as reference',
        'The space is finite and small; it is enumerated completely.',
        'Siblings with different indents and comment-only lists are counted, not judged.',
        '§4 C18'),
    'C19': (
        'exhaustive enumeration of refusing calls from every parsed state (and every depth-1 state in thorough): whole edit alphabet with '
        'invalid arguments, attached nodes at every batch position, duplicates, bad raw texts, claim calls; snapshot-equality oracle',
        'Every call of the alphabet is made with every donor position replaced by a node that lives elsewhere; an attached node must '
        'be refused and any raising call must leave the full snapshot of both documents unchanged.',
        'Calls that succeed are not judged; views are read before the pre-call snapshot.',
        '§4 C19'),
    'C20': (
        'exhaustive pairwise comparison over the pool of all sub-models of all corpus texts (within texts, across texts, across '
        'attribution modes) and every single API perturbation, against the (type, text, structure-signature) reference',
        'a == b is compared with the independent reference on every pair of the pool and on every (pristine, perturbed) ancestor '
        'pair, in both orders, with hash consistency for tokens.',
        'Structure signature is read from the field descriptors.',
        '§4 C20'),
}

PENDING_REASON = 'check not implemented yet in this commit (planned: see DESIGN.md §4); not claimed until it runs'


def main() -> None:
    props = [json.loads(l)['id'] for l in open(os.path.join(VERIF, 'properties.jsonl'))]
    checks = []
    for pid in props:
        if pid not in CLAIMED:
            continue
        tech, text, note, ref = CLAIMED[pid]
        checks.append({
            'property_id': pid,
            'quick_cmd': f'{PY} {pid} --tier quick',
            'thorough_cmd': f'{PY} {pid} --tier thorough',
            'evidence_file': f'/verif/evidence/{pid}.json',
            'replay_cmd_template': f'{PY} {pid} --replay {{path}}',
            'engine': 'mc',
            'level_claimed': {'category': 'model_checking', 'text': text, 'design_ref': ref},
            'level_note': note,
            'technique': tech,
        })
    manifest = {
        'version': 1,
        'setup_cmd': f'{PY} --selftest',
        'hooks': {
            'guard': 'AUTOBEAN_REFACTOR_VERIF',
            'enable': 'no source hooks are needed: checks import /repo\'s working tree via /venv\'s editable install and '
                      'control the load factor by re-executing token_store.py\'s own threshold assignments',
            'baseline_off_cmd': BASELINE,
            'source_commits': [],
            'add_only': True,
        },
        'engines': [{
            'name': 'mc', 'path': '/verif/mc',
            'serves_properties': sorted(CLAIMED),
            'kind_free_text': 'hand-written explicit-state / bounded exhaustive explorer in Python that steps the real '
                              'implementation and a plain-Python reference model side by side',
        }],
        'checks': checks,
        'notes': 'All checks are deterministic (VERIF_SEED is recorded only). Known findings: /verif/KNOWN_FINDINGS.txt. Seeded property-breaking changes and which check reports each: /verif/seeded/SUMMARY.md. As-built notes: DESIGN.md sections 10-12.',
        'not_applicable': [{'property_id': p, 'reason': PENDING_REASON} for p in props if p not in CLAIMED],
    }
    with open(os.path.join(VERIF, 'MANIFEST.json'), 'w') as f:
        json.dump(manifest, f, indent=1)
        f.write('\n')


if __name__ == '__main__':
    main()
