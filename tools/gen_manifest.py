#!/venv/bin/python
"""Regenerates /verif/MANIFEST.json from the table below (one entry per claimed property)."""
import json
import os

VERIF = os.path.dirname(os.path.dirname(os.path.abspath(__file__)))
PY = '/venv/bin/python -B /verif/check.py'
BASELINE = ("cd /repo && /venv/bin/python -m pytest -ra -q -p no:cacheprovider --timeout=900 "
            "--continue-on-collection-errors")

# id -> (technique, level text, level note, design ref)
CLAIMED = {
    'C01': (
        'bounded exhaustive enumeration of documents (all line sequences <= n over a 21-kind line alphabet x EOL/final-newline '
        'variants x attribution mode x every parse target on harvested fragments) executed on the real parser/printer',
        'Every accepted text in the closed small world is parsed and printed; store concatenation, every sub-model slice and the '
        'whole-file print are compared with the input.',
        'Line alphabet with one representative per lexer character class; fragments may leave trivia outside the returned model.',
        '§4 C01'),
    'C02': (
        'exhaustive enumeration of (document, token, replacement) and all ordered pairs of assignments, span-replacement oracle, at '
        'load factors default/3/2',
        'Every token of every corpus document (zero-width and trivia included) gets every replacement raw text / value from its '
        'class domain; the printed text must be the input with exactly that span replaced.',
        'Documents <= 2-3 lines; assignments that raise are judged by C19, not here.',
        '§4 C02'),
    'C03': (
        'breadth-first exploration of edit histories (depth 1 whole corpus, depth 2 small corpus) over the descriptor-derived '
        'structural alphabet with a window/sibling/gap oracle',
        'Every setter and every MutableSequence/Mapping call with every index/slice/arity combination is executed on every model '
        'of every corpus document; everything outside the parent, every sibling and every gap is compared token by token.',
        'Default-parsed documents; donors from a fixed table; gap clause = old gap or declared separators.',
        '§4 C03'),
    'C05': (
        'breadth-first exploration of edit histories over the whole edit alphabet, structural invariant check_tree in every state',
        'All histories up to depth 1 (whole corpus) / 2 (small corpus), deduplicated by canonical state, with the tree invariant '
        'evaluated after every step and on every popped node.',
        'Documents <= 3 lines over the edit alphabet; histories are not extended after a refusal.',
        '§4 C05'),
    'C06': (
        'breadth-first exploration of syntax-preserving edit histories; oracle = print -> parse -> structural comparison',
        'All histories up to depth 1/2 over the syntax-preserving alphabet; the printed document must re-parse to the same '
        'comparison signature and comment lines.',
        'string0 (grammar-dead) and the documented custom-number ambiguity are out of contract; attribution, zero-width marks, '
        'trailing blanks of inline comments are not compared.',
        '§4 C06'),
    'C07': (
        'explicit-state fixpoint BFS over the real TokenStore at load factors 2..7 (state = block layout + caches), '
        'lock-step plain-list reference; band of splices at the default thresholds',
        'All reachable block layouts under a token cap are enumerated for each small load factor and every API call is '
        'executed from every one of them against a plain list; this is the level at which split/merge/renumber bugs live.',
        'Token texts abstracted to classes {x, newline}; stores up to cap tokens; thresholds re-derived from the tree\'s own formulas.',
        '§4 C07'),
    'C08': (
        'explicit-state fixpoint BFS over the real TokenStore with newline-bearing/empty token classes and update transitions; '
        'document-level exhaustive token assignments and structural edits; oracle = positions recomputed from the text',
        'Every reachable (layout, cache) state under the cap x every splice/update; plus every token assignment and structural '
        'edit on every corpus document, with every token\'s (line, column, ordinal) compared against the printed text.',
        'Token texts abstracted to 4 classes; <= 2 newline-bearing tokens per store in the store-level space.',
        '§4 C08'),
}

PENDING_REASON = 'check not implemented yet in this commit (planned: see DESIGN.md §4); not claimed until it runs'


def main() -> None:
    props = [json.loads(l)['id'] for l in open(os.path.join(VERIF, 'properties.jsonl'))]
    checks = []
    for pid in props:
        if pid not in CLAIMED:
            continue
        tech, text, note, ref = CLAIMED[pid]
        checks.append({
            'property_id': pid,
            'quick_cmd': f'{PY} {pid} --tier quick',
            'thorough_cmd': f'{PY} {pid} --tier thorough',
            'evidence_file': f'/verif/evidence/{pid}.json',
            'replay_cmd_template': f'{PY} {pid} --replay {{path}}',
            'engine': 'mc',
            'level_claimed': {'category': 'model_checking', 'text': text, 'design_ref': ref},
            'level_note': note,
            'technique': tech,
        })
    manifest = {
        'version': 1,
        'setup_cmd': f'{PY} --selftest',
        'hooks': {
            'guard': 'AUTOBEAN_REFACTOR_VERIF',
            'enable': 'no source hooks are needed: checks import /repo\'s working tree via /venv\'s editable install and '
                      'control the load factor by re-executing token_store.py\'s own threshold assignments',
            'baseline_off_cmd': BASELINE,
            'source_commits': [],
            'add_only': True,
        },
        'engines': [{
            'name': 'mc', 'path': '/verif/mc',
            'serves_properties': sorted(CLAIMED),
            'kind_free_text': 'hand-written explicit-state / bounded exhaustive explorer in Python that steps the real '
                              'implementation and a plain-Python reference model side by side',
        }],
        'checks': checks,
        'notes': 'All checks are deterministic (VERIF_SEED is recorded only). Known findings: /verif/KNOWN_FINDINGS.txt.',
        'not_applicable': [{'property_id': p, 'reason': PENDING_REASON} for p in props if p not in CLAIMED],
    }
    with open(os.path.join(VERIF, 'MANIFEST.json'), 'w') as f:
        json.dump(manifest, f, indent=1)
        f.write('\n')


if __name__ == '__main__':
    main()
