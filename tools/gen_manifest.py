#!/venv/bin/python
"""Regenerates /verif/MANIFEST.json from the table below (one entry per claimed property)."""
import json
import os

VERIF = os.path.dirname(os.path.dirname(os.path.abspath(__file__)))
PY = '/venv/bin/python -B /verif/check.py'
BASELINE = ("cd /repo && /venv/bin/python -m pytest -ra -q -p no:cacheprovider --timeout=900 "
            "--continue-on-collection-errors")

# id -> (technique, level text, level note, design ref)
CLAIMED = {
    'C07': (
        'explicit-state fixpoint BFS over the real TokenStore at load factors 2..7 (state = block layout + caches), '
        'lock-step plain-list reference; band of splices at the default thresholds; load-factor differential through the model API',
        'All reachable block layouts under a token cap are enumerated for each small load factor and every API call is '
        'executed from every one of them against a plain list; this is the level at which split/merge/renumber bugs live.',
        'Token texts abstracted to classes {x, newline}; stores up to cap tokens; thresholds re-derived from the tree\'s own formulas.',
        '§4 C07'),
}

PENDING_REASON = 'check not implemented yet in this commit (planned: see DESIGN.md §4); not claimed until it runs'


def main() -> None:
    props = [json.loads(l)['id'] for l in open(os.path.join(VERIF, 'properties.jsonl'))]
    checks = []
    for pid in props:
        if pid not in CLAIMED:
            continue
        tech, text, note, ref = CLAIMED[pid]
        checks.append({
            'property_id': pid,
            'quick_cmd': f'{PY} {pid} --tier quick',
            'thorough_cmd': f'{PY} {pid} --tier thorough',
            'evidence_file': f'/verif/evidence/{pid}.json',
            'replay_cmd_template': f'{PY} {pid} --replay {{path}}',
            'engine': 'mc',
            'level_claimed': {'category': 'model_checking', 'text': text, 'design_ref': ref},
            'level_note': note,
            'technique': tech,
        })
    manifest = {
        'version': 1,
        'setup_cmd': f'{PY} --selftest',
        'hooks': {
            'guard': 'AUTOBEAN_REFACTOR_VERIF',
            'enable': 'no source hooks are needed: checks import /repo\'s working tree via /venv\'s editable install and '
                      'control the load factor by re-executing token_store.py\'s own threshold assignments',
            'baseline_off_cmd': BASELINE,
            'source_commits': [],
            'add_only': True,
        },
        'engines': [{
            'name': 'mc', 'path': '/verif/mc',
            'serves_properties': sorted(CLAIMED),
            'kind_free_text': 'hand-written explicit-state / bounded exhaustive explorer in Python that steps the real '
                              'implementation and a plain-Python reference model side by side',
        }],
        'checks': checks,
        'notes': 'All checks are deterministic (VERIF_SEED is recorded only). Known findings: /verif/KNOWN_FINDINGS.txt.',
        'not_applicable': [{'property_id': p, 'reason': PENDING_REASON} for p in props if p not in CLAIMED],
    }
    with open(os.path.join(VERIF, 'MANIFEST.json'), 'w') as f:
        json.dump(manifest, f, indent=1)
        f.write('\n')


if __name__ == '__main__':
    main()
