#!/bin/bash
# runs every claimed check's quick command (refreshing /verif/evidence) and validates the evidence files
cd /verif
tier=${1:-quick}
for id in $(/venv/bin/python -c "import json;print(' '.join(c['property_id'] for c in json.load(open('MANIFEST.json'))['checks']))"); do
  s=$(date +%s)
  /venv/bin/python -B check.py $id --tier $tier > /tmp/verif_run_$id.log 2>&1
  rc=$?
  e=$(date +%s)
  echo "$id rc=$rc $((e-s))s $(grep -c '^VIOLATION' /tmp/verif_run_$id.log) violations; $(tail -1 /tmp/verif_run_$id.log | cut -c1-160)"
done
python3-vt - <<'PY'
import json, jsonschema, glob
sch = json.load(open('/root/.vp/EVIDENCE.schema.json'))
for f in sorted(glob.glob('/verif/evidence/*.json')):
    try:
        jsonschema.validate(json.load(open(f)), sch)
    except Exception as e:
        print('INVALID', f, str(e)[:200])
print('evidence validated')
PY
